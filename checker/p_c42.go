package main

import (
	"go/ast"
	"go/token"
	"go/types"
	"strings"
)

func init() {
	register(&Property{
		ID:    "C42",
		Title: "The results cache never changes results",
		Explain: "(1) Keys are stored hashed, so a hit is trusted only after the echoed key matched: decodeCachedResponse returns extents only on the path where resp.Key equals the requested key; put stores the same key it hashes; getFirst decodes the buffer found under a hashed key with the original key recorded for that hashed key. " +
			"(2) Write-back discipline (path-sensitive flow with one tracked flag): in resultsCache.Do the put is reachable only with err == nil, only under the primary key — the variable built by GenerateCacheKey and used for the primary lookup — and on no path that went through the alternative-key hit (extents extracted from an entry with a different step are not on this request's grid). " +
			"(3) Only responses that passed shouldCacheResponse become extents (path condition at every toExtent call). " +
			"(4) partition requests every gap: the front request [start, extent.Start) is issued exactly under start < extent.Start, the tail [start, req.End) under start < req.End, and start advances to the end of each used extent.",
		Assume: []string{"merge/extract arithmetic and step alignment of extracted samples are not decided"},
		Run:    runC42,
	})
}

func runC42(c *Ctx) {
	c.Rule("hit-trusted-only-after-key-echo", "decoded entry accepted only if its key equals the requested one", 3)
	c.Rule("write-back-discipline", "put only on success, under the primary key, never after an alternative-key hit", 2)
	c.Rule("cached-extents-passed-policy", "extents only from responses that shouldCacheResponse accepted", 2)
	c.Rule("partition-requests-gaps", "front and tail gaps requested; start advances", 3)
	p := c.Load("internal/cortex/querier/queryrange")
	if p == nil {
		return
	}
	const rel = "internal/cortex/querier/queryrange"

	// (1)
	if fn := p.Func(rel, "resultsCache", "decodeCachedResponse"); fn == nil {
		c.Incomplete("hit-trusted-only-after-key-echo", rel+".(resultsCache).decodeCachedResponse", "", "function not found")
	} else {
		info := fn.Info()
		ok, n := false, 0
		ast.Inspect(fn.Body(), func(nd ast.Node) bool {
			ret, isRet := nd.(*ast.ReturnStmt)
			if !isRet || len(ret.Results) != 2 || canon(ret.Results[1]) != "true" {
				return true
			}
			n++
			for _, g := range guardsOf(p, fn, ret) {
				refine(g.Cond, g.Pol, func(atom ast.Expr, t bool) {
					be, isBin := unparen(atom).(*ast.BinaryExpr)
					if !isBin {
						return
					}
					l, r := canon(be.X), canon(be.Y)
					pair := (strings.HasSuffix(l, ".Key") && r == "key") || (strings.HasSuffix(r, ".Key") && l == "key")
					if pair && ((be.Op == token.NEQ && !t) || (be.Op == token.EQL && t)) {
						ok = true
					}
				})
			}
			return true
		})
		_ = info
		c.Check(ok && n == 1, "hit-trusted-only-after-key-echo", rel+".(resultsCache).decodeCachedResponse", p.Pos(fn.Decl.Pos()), "hit-without-key-check",
			"a cached entry is accepted without comparing the key it echoes with the requested key: two keys with the same hash would answer each other's queries")
	}
	if fn := p.Func(rel, "resultsCache", "put"); fn == nil {
		c.Incomplete("hit-trusted-only-after-key-echo", rel+".(resultsCache).put", "", "function not found")
	} else {
		info := fn.Info()
		var keyParam types.Object
		i := 0
		for _, f := range fn.Decl.Type.Params.List {
			for _, nm := range f.Names {
				if i == 1 {
					keyParam = info.Defs[nm]
				}
				i++
			}
		}
		echo, hashed := false, false
		ast.Inspect(fn.Body(), func(nd ast.Node) bool {
			switch v := nd.(type) {
			case *ast.KeyValueExpr:
				if k, ok := v.Key.(*ast.Ident); ok && k.Name == "Key" && objOf(info, v.Value) == keyParam {
					echo = true
				}
			case *ast.CallExpr:
				if f := calleeOf(info, v); f != nil && f.Name() == "HashKey" && len(v.Args) == 1 && objOf(info, v.Args[0]) == keyParam {
					hashed = true
				}
			}
			return true
		})
		c.Check(echo && hashed && keyParam != nil, "hit-trusted-only-after-key-echo", rel+".(resultsCache).put", p.Pos(fn.Decl.Pos()), "stored-key-differs",
			"the entry must echo the same key whose hash it is stored under")
	}
	if fn := p.Func(rel, "resultsCache", "getFirst"); fn == nil {
		c.Incomplete("hit-trusted-only-after-key-echo", rel+".(resultsCache).getFirst", "", "function not found")
	} else {
		info := fn.Info()
		bad, n := "", 0
		ast.Inspect(fn.Body(), func(nd ast.Node) bool {
			call, ok := nd.(*ast.CallExpr)
			if !ok {
				return true
			}
			if f := calleeOf(info, call); f == nil || f.Name() != "decodeCachedResponse" || len(call.Args) != 3 {
				return true
			}
			n++
			kd := singleDefTupleIndexed(fn, info, objOf(info, call.Args[1]))
			bd := singleDefTupleIndexed(fn, info, objOf(info, call.Args[2]))
			if kd == nil || bd == nil {
				bad = "key or buffer of the decoded entry is not looked up by the hashed key"
				return true
			}
			if canon(kd.Index) != canon(bd.Index) {
				bad = "the buffer found under " + canon(bd.Index) + " is decoded with the key recorded for " + canon(kd.Index)
			}
			// the map of original keys is filled as m[HashKey(key)] = key
			okFill := false
			mapObj := objOf(info, kd.X)
			ast.Inspect(fn.Body(), func(x ast.Node) bool {
				as, ok := x.(*ast.AssignStmt)
				if !ok || len(as.Lhs) != 1 || len(as.Rhs) != 1 {
					return true
				}
				ix, ok := unparen(as.Lhs[0]).(*ast.IndexExpr)
				if !ok || objOf(info, ix.X) != mapObj {
					return true
				}
				h := expandDefText(fn, info, ix.Index)
				if strings.HasSuffix(h, "HashKey("+canon(as.Rhs[0])+")") {
					okFill = true
				}
				return true
			})
			if !okFill && bad == "" {
				bad = "the table of original keys is not filled as table[HashKey(key)] = key"
			}
			return true
		})
		if n == 0 {
			bad = "fetched entries are never decoded"
		}
		c.Check(bad == "", "hit-trusted-only-after-key-echo", rel+".(resultsCache).getFirst", p.Pos(fn.Decl.Pos()), "decode-key-mismatch", bad)
	}

	// (2)
	if fn := p.Func(rel, "resultsCache", "Do"); fn == nil {
		c.Incomplete("write-back-discipline", rel+".(resultsCache).Do", "", "function not found")
	} else {
		info := fn.Info()
		construct := rel + ".(resultsCache).Do"
		var put *ast.CallExpr
		ast.Inspect(fn.Body(), func(nd ast.Node) bool {
			if call, ok := nd.(*ast.CallExpr); ok {
				if f := calleeOf(info, call); f != nil && f.Name() == "put" {
					put = call
				}
			}
			return true
		})
		if put == nil || len(put.Args) != 3 {
			c.Bad("write-back-discipline", construct+"#put", p.Pos(fn.Decl.Pos()), "no-write-back", "results are never written back to the cache")
		} else {
			// primary key
			keyObj := objOf(info, put.Args[1])
			keyOK := false
			if keyObj != nil {
				if d := singleDef(fn, info, keyObj); d != nil && strings.Contains(canon(d), ".GenerateCacheKey(") {
					// and the primary lookup uses it
					ast.Inspect(fn.Body(), func(nd ast.Node) bool {
						if call, ok := nd.(*ast.CallExpr); ok && len(call.Args) == 2 {
							if f := calleeOf(info, call); f != nil && f.Name() == "get" && objOf(info, call.Args[1]) == keyObj {
								keyOK = true
							}
						}
						return true
					})
				}
			}
			c.Check(keyOK, "write-back-discipline", construct+"#key", p.Pos(put.Pos()), "write-back-key",
				"the entry must be written under the request's own key (the one GenerateCacheKey built and the primary lookup used)")

			// flag flow: which bool local guards the put?
			var flag types.Object
			errGuard := false
			// the error of the request itself: the one handleMiss / handleHit assign
			var reqErr types.Object
			var reqErrPos token.Pos
			ast.Inspect(fn.Body(), func(nd ast.Node) bool {
				if as, ok := nd.(*ast.AssignStmt); ok && len(as.Rhs) == 1 && len(as.Lhs) == 3 {
					if call, ok := unparen(as.Rhs[0]).(*ast.CallExpr); ok {
						if f := calleeOf(info, call); f != nil && (f.Name() == "handleMiss" || f.Name() == "handleHit") {
							reqErr = objOf(info, as.Lhs[2])
							if as.End() > reqErrPos {
								reqErrPos = as.End()
							}
						}
					}
				}
				return true
			})
			for _, g := range guardsOf(p, fn, put) {
				refine(g.Cond, g.Pol, func(atom ast.Expr, t bool) {
					if id, ok := unparen(atom).(*ast.Ident); ok {
						if o, ok := info.Uses[id].(*types.Var); ok && isBoolType(o.Type()) {
							flag = o
						}
					}
					if be, ok := unparen(atom).(*ast.BinaryExpr); ok && reqErr != nil && objOf(info, be.X) == reqErr && be.Pos() > reqErrPos && isNil(info, be.Y) && ((be.Op == token.EQL && t) || (be.Op == token.NEQ && !t)) {
						errGuard = true
					}
				})
			}
			// state: bit (alt*3 + flagVal) ; flagVal 0 false 1 true 2 unknown
			type st = uint8
			bit := func(alt, fv int) st { return 1 << uint(alt*3+fv) }
			mapSt := func(s st, f func(alt, fv int) (int, int, bool)) st {
				var o st
				for a := 0; a < 2; a++ {
					for v := 0; v < 3; v++ {
						if s&bit(a, v) != 0 {
							if na, nv, keep := f(a, v); keep {
								o |= bit(na, nv)
							}
						}
					}
				}
				return o
			}
			isAltHit := func(n ast.Node) bool {
				found := false
				inspectNoLit(n, func(x ast.Node) bool {
					if call, ok := x.(*ast.CallExpr); ok {
						if f := calleeOf(info, call); f != nil && f.Name() == "handleHit" && len(call.Args) >= 1 {
							last := canon(call.Args[len(call.Args)-1])
							if last != "extractAnyStep" {
								found = true
							}
						}
					}
					return true
				})
				return found
			}
			r := runFlow(p, fn, FlowSpec[st]{
				Entry: bit(0, 2),
				Transfer: func(n ast.Node, s st) st {
					if isAltHit(n) {
						s = mapSt(s, func(a, v int) (int, int, bool) { return 1, v, true })
					}
					set := func(lhs ast.Expr, rhs ast.Expr) {
						if flag == nil || objOf(info, lhs) != flag || rhs == nil {
							return
						}
						nv := 2
						switch canon(rhs) {
						case "true":
							nv = 1
						case "false":
							nv = 0
						}
						s = mapSt(s, func(a, _ int) (int, int, bool) { return a, nv, true })
					}
					switch v := n.(type) {
					case *ast.AssignStmt:
						for i, lh := range v.Lhs {
							if i < len(v.Rhs) && len(v.Lhs) == len(v.Rhs) {
								set(lh, v.Rhs[i])
							}
						}
					case *ast.DeclStmt:
						if gd, ok := v.Decl.(*ast.GenDecl); ok {
							for _, sp := range gd.Specs {
								if vs, ok := sp.(*ast.ValueSpec); ok {
									for i, nm := range vs.Names {
										if i < len(vs.Values) {
											set(nm, vs.Values[i])
										}
									}
								}
							}
						}
					case *ast.ValueSpec:
						for i, nm := range v.Names {
							if i < len(v.Values) {
								set(nm, v.Values[i])
							}
						}
					}
					return s
				},
				Branch: func(cond ast.Expr, truth bool, s st) st {
					refine(cond, truth, func(atom ast.Expr, t bool) {
						if flag != nil && objOf(info, atom) == flag {
							want := 0
							if t {
								want = 1
							}
							s = mapSt(s, func(a, v int) (int, int, bool) {
								if v == 2 || v == want {
									return a, want, true
								}
								return 0, 0, false
							})
						}
					})
					return s
				},
				Join:  func(a, b st) st { return a | b },
				Equal: func(a, b st) bool { return a == b },
			})
			s, found := r.Before(put)
			altReaches := false
			for v := 0; v < 3; v++ {
				if s&bit(1, v) != 0 {
					altReaches = true
				}
			}
			switch {
			case !found:
				c.Incomplete("write-back-discipline", construct+"#put", p.Pos(put.Pos()), "the put is not reachable in the control-flow graph")
			case !errGuard:
				c.Bad("write-back-discipline", construct+"#put", p.Pos(put.Pos()), "write-back-on-error", "the put is reachable although the request failed (err != nil)")
			default:
				c.Check(!altReaches, "write-back-discipline", construct+"#put", p.Pos(put.Pos()), "write-back-after-alternative-hit",
					"the put is reachable on a path that went through the alternative-key hit: extents extracted from an entry with another step would be stored under this request's key and later served as if they were on its grid")
			}
		}
	}

	// (3)
	for _, name := range []string{"handleMiss", "handleHit"} {
		fn := p.Func(rel, "resultsCache", name)
		construct := rel + ".(resultsCache)." + name
		if fn == nil {
			c.Incomplete("cached-extents-passed-policy", construct, "", "function not found")
			continue
		}
		info := fn.Info()
		n, bad := 0, ""
		ast.Inspect(fn.Body(), func(nd ast.Node) bool {
			call, ok := nd.(*ast.CallExpr)
			if !ok {
				return true
			}
			if f := calleeOf(info, call); f == nil || f.Name() != "toExtent" {
				return true
			}
			n++
			okG := false
			for _, g := range guardsOf(p, fn, call) {
				refine(g.Cond, g.Pol, func(atom ast.Expr, t bool) {
					if c2, isC := unparen(atom).(*ast.CallExpr); isC && t {
						if f := calleeOf(info, c2); f != nil && f.Name() == "shouldCacheResponse" {
							okG = true
						}
					}
				})
			}
			if !okG {
				bad = "a response becomes a cache extent without having passed shouldCacheResponse"
			}
			return true
		})
		if n == 0 {
			bad = "no extent is ever built"
		}
		c.Check(bad == "", "cached-extents-passed-policy", construct, p.Pos(fn.Decl.Pos()), "extent-without-policy", bad)
	}

	// (4)
	if fn := p.Func(rel, "resultsCache", "partition"); fn == nil {
		c.Incomplete("partition-requests-gaps", rel+".(resultsCache).partition", "", "function not found")
	} else {
		info := fn.Info()
		construct := rel + ".(resultsCache).partition"
		front, tail := "", ""
		ast.Inspect(fn.Body(), func(nd ast.Node) bool {
			call, ok := nd.(*ast.CallExpr)
			if !ok || len(call.Args) != 2 {
				return true
			}
			sel, ok := unparen(call.Fun).(*ast.SelectorExpr)
			if !ok || sel.Sel.Name != "WithStartEnd" {
				return true
			}
			a0, a1 := canon(call.Args[0]), canon(call.Args[1])
			var conds []string
			if is, ok := enclosingIf(p, fn, call); ok {
				conds = append(conds, canon(is.Cond))
			}
			switch {
			case strings.HasSuffix(a1, ".Start"):
				front = a0 + "," + a1 + "|" + strings.Join(conds, "&")
			case strings.HasSuffix(a1, ".GetEnd()"):
				tail = a0 + "," + a1 + "|" + strings.Join(conds, "&")
			}
			return true
		})
		c.Check(front == "start,extent.Start|start<extent.Start", "partition-requests-gaps", construct+"#front", p.Pos(fn.Decl.Pos()), "front-gap",
			"the part of the request before a cached extent must be requested as [start, extent.Start) exactly when start < extent.Start (found "+front+")")
		c.Check(tail == "start,req.GetEnd()|start<req.GetEnd()", "partition-requests-gaps", construct+"#tail", p.Pos(fn.Decl.Pos()), "tail-gap",
			"the part of the request after the last cached extent must be requested as [start, req.End) exactly when start < req.End (found "+tail+")")
		adv := false
		ast.Inspect(fn.Body(), func(nd ast.Node) bool {
			if as, ok := nd.(*ast.AssignStmt); ok && len(as.Lhs) == 1 && canon(as.Lhs[0]) == "start" && as.Tok == token.ASSIGN && canon(as.Rhs[0]) == "extent.End" {
				adv = true
			}
			return true
		})
		_ = info
		c.Check(adv, "partition-requests-gaps", construct+"#advance", p.Pos(fn.Decl.Pos()), "start-not-advanced", "start must advance to the end of each used extent")
	}
}

// enclosingIf: the innermost if statement whose body contains n.
func enclosingIf(p *Prog, fn *Fn, n ast.Node) (*ast.IfStmt, bool) {
	for par := p.ParentOf(fn.Pkg, n); par != nil; par = p.ParentOf(fn.Pkg, par) {
		if is, ok := par.(*ast.IfStmt); ok && is.Body.Pos() <= n.Pos() && n.End() <= is.Body.End() {
			return is, true
		}
		if _, ok := par.(*ast.FuncDecl); ok {
			break
		}
	}
	return nil, false
}

// singleDefTupleIndexed: o is defined exactly once as `o, ok := m[k]`; returns the index expression.
func singleDefTupleIndexed(fn *Fn, info *types.Info, o types.Object) *ast.IndexExpr {
	if o == nil {
		return nil
	}
	var def *ast.IndexExpr
	n := 0
	ast.Inspect(fn.Body(), func(x ast.Node) bool {
		if as, ok := x.(*ast.AssignStmt); ok {
			for i, l := range as.Lhs {
				if objOf(info, l) == o {
					n++
					if i == 0 && len(as.Rhs) == 1 {
						def, _ = unparen(as.Rhs[0]).(*ast.IndexExpr)
					}
				}
			}
		}
		return true
	})
	if n == 1 {
		return def
	}
	return nil
}
