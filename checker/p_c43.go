package main

import (
	"go/ast"
	"go/types"
	"sort"
	"strings"
)

func init() {
	register(&Property{
		ID:    "C43",
		Title: "Results-cache keys separate tenants and result-changing parameters",
		Explain: "E5 on the cache-key generator of the query frontend (thanosCacheKeyGenerator): the key of each request kind (range, labels, series) is read into a format term. " +
			"(1) Field coverage: every field of the three request structs is classified in a frozen table as key material / not result-changing (with reason) / known missing; key-material fields must occur as atoms of the term, and a struct field that is not in the table is reported (a new field must be classified). " +
			"(2) Unique decodability of each term with tenant ids, queries, engine names, label names and replica labels as free atoms. (3) The three request kinds must have pairwise distinguishable keys (distinct leading literals). " +
			"(4) GenerateCacheKeyAlternatives builds its keys with the same function as the primary key and varies only the step.",
		Assume: []string{"the split interval and interval index are functions of the request's start and the configured interval"},
		Run:    runC43,
	})
}

func runC43(c *Ctx) {
	c.Rule("fe-key-field-coverage", "result-changing request fields are part of the key", 20)
	c.Rule("fe-key-uniquely-decodable", "frontend key formats are uniquely decodable", 3)
	c.Rule("fe-key-kinds-distinguishable", "range / labels / series keys cannot coincide", 1)
	c.Rule("fe-key-alternatives-same-generator", "alternative keys differ only in step", 1)
	p := c.Load("pkg/queryfrontend")
	if p == nil {
		return
	}
	const rel = "pkg/queryfrontend"
	gen := p.Func(rel, "thanosCacheKeyGenerator", "GenerateCacheKey")
	rng := p.Func(rel, "thanosCacheKeyGenerator", "generateQueryRangeCacheKey")
	if gen == nil || rng == nil {
		c.Incomplete("fe-key-field-coverage", rel+".thanosCacheKeyGenerator", "", "GenerateCacheKey / generateQueryRangeCacheKey not found")
		return
	}
	classify := func(e ast.Expr, text string, t types.Type) (string, string) {
		switch {
		case strings.HasSuffix(text, "shardInfoKey") || strings.Contains(text, "generateShardInfoKey("):
			return "", ""
		}
		return "", ""
	}
	terms := map[string][]fT{}
	errs := map[string][]string{}
	pos := map[string]string{}
	// range key: result of generateQueryRangeCacheKey
	{
		var ret *ast.ReturnStmt
		inspectNoLit(rng.Body(), func(n ast.Node) bool {
			if r, ok := n.(*ast.ReturnStmt); ok {
				ret = r
			}
			return true
		})
		if ret != nil && len(ret.Results) == 1 {
			x := newE5(p, rng, classify)
			terms["range"] = x.terms(ret.Results[0])
			errs["range"] = x.errs
			pos["range"] = p.Pos(ret.Pos())
		}
	}
	// labels / series keys: the Sprintf returns in the type switch of GenerateCacheKey
	ast.Inspect(gen.Body(), func(n ast.Node) bool {
		cc, ok := n.(*ast.CaseClause)
		if !ok || len(cc.List) != 1 {
			return true
		}
		kind := ""
		switch {
		case strings.Contains(exprString(cc.List[0]), "LabelsRequest"):
			kind = "labels"
		case strings.Contains(exprString(cc.List[0]), "SeriesRequest"):
			kind = "series"
		default:
			return true
		}
		for _, st := range cc.Body {
			if r, ok := st.(*ast.ReturnStmt); ok && len(r.Results) == 1 {
				x := newE5(p, gen, classify)
				terms[kind] = x.terms(r.Results[0])
				errs[kind] = x.errs
				pos[kind] = p.Pos(r.Pos())
			}
		}
		return true
	})

	// frozen classification of request fields
	type fieldClass struct{ class, why string } // key | no | missing
	table := map[string]map[string]fieldClass{
		"ThanosQueryRangeRequest": {
			"Path": {"no", "fixed per request kind"}, "Start": {"key", "through the interval index"}, "End": {"no", "extent bookkeeping inside the cached response"},
			"Step": {"key", ""}, "Timeout": {"no", "does not change the answer"}, "Query": {"key", ""}, "Dedup": {"missing", "deduplication on/off changes the answer but is not in the key"},
			"PartialResponse": {"key", ""}, "AutoDownsampling": {"no", "folded into MaxSourceResolution before key generation"}, "MaxSourceResolution": {"key", "as resolution bucket"},
			"ReplicaLabels": {"key", ""}, "StoreMatchers": {"missing", "store selection changes the answer but is not in the key"}, "CachingOptions": {"no", "cache control"},
			"Headers": {"no", "forwarded headers"}, "Stats": {"no", "query statistics mode, stripped from cached responses"}, "ShardInfo": {"key", ""}, "LookbackDelta": {"key", ""},
			"Analyze": {"key", ""}, "Engine": {"key", ""}, "SplitInterval": {"key", ""},
		},
		"ThanosLabelsRequest": {
			"Start": {"key", "through the interval index"}, "End": {"no", "extent bookkeeping"}, "Label": {"key", ""}, "Path": {"no", "fixed per request kind"}, "Matchers": {"key", ""},
			"StoreMatchers": {"missing", "store selection changes the answer but is not in the key"}, "PartialResponse": {"missing", "partial response on/off changes the answer but is not in the key"},
			"CachingOptions": {"no", "cache control"}, "Headers": {"no", "forwarded headers"}, "Stats": {"no", "statistics mode"}, "SplitInterval": {"key", ""},
		},
		"ThanosSeriesRequest": {
			"Path": {"no", "fixed per request kind"}, "Start": {"key", "through the interval index"}, "End": {"no", "extent bookkeeping"}, "Dedup": {"missing", "deduplication changes the answer but is not in the key"},
			"PartialResponse": {"missing", "partial response changes the answer but is not in the key"}, "ReplicaLabels": {"missing", "replica labels change the answer but are not in the key"},
			"Matchers": {"key", ""}, "StoreMatchers": {"missing", "store selection changes the answer but is not in the key"}, "CachingOptions": {"no", "cache control"},
			"Headers": {"no", "forwarded headers"}, "Stats": {"no", "statistics mode"}, "SplitInterval": {"key", ""},
		},
	}
	atomFor := map[string][]string{ // field -> what must occur in the provenance of some atom of the key (locals expanded to their definitions)
		"Start": {"GetStart()", ".Start"}, "SplitInterval": {"GetSplitInterval()", ".SplitInterval"}, "Step": {".Step", "GetStep()"}, "Query": {".Query"}, "PartialResponse": {".PartialResponse"},
		"MaxSourceResolution": {".MaxSourceResolution"}, "ReplicaLabels": {".ReplicaLabels"}, "ShardInfo": {".ShardInfo", "generateShardInfoKey("}, "LookbackDelta": {".LookbackDelta"},
		"Analyze": {".Analyze"}, "Engine": {".Engine"}, "Label": {".Label"}, "Matchers": {".Matchers"}, "Dedup": {".Dedup"}, "StoreMatchers": {".StoreMatchers"},
	}
	var tenantParam types.Object
	if ps := gen.Decl.Type.Params; ps != nil && len(ps.List) > 0 && len(ps.List[0].Names) > 0 {
		tenantParam = gen.Info().Defs[ps.List[0].Names[0]]
	}
	var rngCall *ast.CallExpr
	ast.Inspect(gen.Body(), func(n ast.Node) bool {
		if call, ok := n.(*ast.CallExpr); ok && rng.Obj != nil && calleeOf(gen.Info(), call) == rng.Obj {
			rngCall = call
		}
		return true
	})
	kindOf := map[string]string{"ThanosQueryRangeRequest": "range", "ThanosLabelsRequest": "labels", "ThanosSeriesRequest": "series"}
	for _, tn := range []string{"ThanosQueryRangeRequest", "ThanosLabelsRequest", "ThanosSeriesRequest"} {
		kind := kindOf[tn]
		ts, have := terms[kind]
		if !have || len(errs[kind]) > 0 {
			c.Incomplete("fe-key-uniquely-decodable", rel+".cacheKey#"+kind, pos[kind], "key construction not found or not understood: "+strings.Join(errs[kind], "; "))
			continue
		}
		names := map[string]bool{}
		hasTenant := false
		for _, a := range atomList(ts) {
			// an atom that is a parameter of the range-key helper stands for the argument GenerateCacheKey passes
			if id, ok := unparenOrNil(a.Src).(*ast.Ident); ok && a.Fn == rng {
				for k, pn := range namesOf(rng).Params {
					if pn == id.Name && rngCall != nil && k < len(rngCall.Args) && objOf(a.Info, id) != nil && isParamOf(rng, objOf(a.Info, id)) {
						a = fT{K: fAtom, Raw: canon(rngCall.Args[k]), Src: rngCall.Args[k], Info: gen.Info(), Fn: gen}
					}
				}
			}
			names[strings.ReplaceAll(a.Provenance(), " ", "")] = true
			// the tenant: the first parameter of GenerateCacheKey, directly or through a helper's parameter
			if id, ok := unparenOrNil(a.Src).(*ast.Ident); ok && a.Info != nil && tenantParam != nil && objOf(a.Info, id) == tenantParam {
				hasTenant = true
			}
		}
		c.Check(hasTenant, "fe-key-field-coverage", rel+".cacheKey#"+kind+".tenant", pos[kind], "tenant-not-in-key", "the tenant id is not part of the "+kind+" key")
		nt := p.lookupNamed(thanosMod+"/"+rel, tn)
		if nt == nil {
			c.Incomplete("fe-key-field-coverage", rel+"."+tn, "", "type not found")
			continue
		}
		for _, f := range structFieldNames(nt) {
			construct := rel + "." + tn + "." + f
			fc, known := table[tn][f]
			if !known {
				c.Bad("fe-key-field-coverage", construct, pos[kind], "unclassified-request-field:"+f, "request field "+tn+"."+f+" is not classified as key material / irrelevant: a new parameter that changes results must be added to the cache key")
				continue
			}
			inKey := false
			for _, sub := range atomFor[f] {
				for n := range names {
					if n == sub || (len(sub) > 1 && strings.Contains(n, sub)) {
						inKey = true
					}
				}
			}
			switch fc.class {
			case "key":
				c.Check(inKey, "fe-key-field-coverage", construct, pos[kind], "result-changing-field-not-in-key:"+tn+"."+f, "request field "+f+" changes the answer but does not flow into the "+kind+" cache key ("+termsString(ts)+")")
			case "missing":
				if inKey {
					c.OK("fe-key-field-coverage", construct, pos[kind], "now part of the key")
				} else {
					c.Bad("fe-key-field-coverage", construct, pos[kind], "result-changing-field-not-in-key:"+tn+"."+f, "request field "+f+": "+fc.why)
				}
			default:
				c.Observe("fe-key-field-coverage", construct, pos[kind], "not key material: "+fc.why)
			}
		}
		whys := decodableAll(ts)
		if len(whys) == 0 {
			c.OK("fe-key-uniquely-decodable", rel+".cacheKey#"+kind, pos[kind], termsString(ts))
		}
		for _, why := range whys {
			c.Bad("fe-key-uniquely-decodable", rel+".cacheKey#"+kind, pos[kind], "ambiguous:"+why, "the "+kind+" key format "+termsString(ts)+" is not uniquely decodable ("+why+"): two requests differing in tenant/query/… can share a key")
		}
	}
	// kinds distinguishable
	{
		var pf []string
		for _, k := range []string{"range", "labels", "series"} {
			pf = append(pf, k+"="+leadingLiteral(terms[k]))
		}
		distinct := true
		seen := map[string]bool{}
		for _, k := range []string{"range", "labels", "series"} {
			l := leadingLiteral(terms[k])
			if seen[l] {
				distinct = false
			}
			seen[l] = true
		}
		sort.Strings(pf)
		if distinct {
			c.OK("fe-key-kinds-distinguishable", rel+".cacheKey#kinds", pos["labels"], strings.Join(pf, " "))
		} else {
			c.Bad("fe-key-kinds-distinguishable", rel+".cacheKey#kinds", pos["labels"], "request-kinds-share-prefix", "keys of different request kinds start with the same literal and carry no kind tag ("+strings.Join(pf, ", ")+"): a labels key and a series key can coincide")
		}
	}
	// alternatives
	if alt := p.Func(rel, "thanosCacheKeyGenerator", "GenerateCacheKeyAlternatives"); alt == nil {
		c.Incomplete("fe-key-alternatives-same-generator", rel+".GenerateCacheKeyAlternatives", "", "function not found")
	} else {
		ainfo := alt.Info()
		var call *ast.CallExpr
		n := 0
		ast.Inspect(alt.Body(), func(nd ast.Node) bool {
			if cl, ok := nd.(*ast.CallExpr); ok && calleeOf(ainfo, cl) == rng.Obj {
				call = cl
				n++
			}
			return true
		})
		ok := false
		why := "alternatives are not built by generateQueryRangeCacheKey"
		if call != nil && n == 1 {
			// compare with the primary call's arguments: only the step argument may differ
			var prim *ast.CallExpr
			ast.Inspect(gen.Body(), func(nd ast.Node) bool {
				if cl, ok := nd.(*ast.CallExpr); ok && calleeOf(gen.Info(), cl) == rng.Obj {
					prim = cl
				}
				return true
			})
			if prim != nil && len(prim.Args) == len(call.Args) {
				ok = true
				for i := range call.Args {
					// compared by provenance: what the argument is computed from, with the locals in between expanded
				a := strings.ReplaceAll(fT{K: fAtom, Src: call.Args[i], Info: ainfo, Fn: alt, P: p}.Provenance(), " ", "")
				b := strings.ReplaceAll(fT{K: fAtom, Src: prim.Args[i], Info: gen.Info(), Fn: gen, P: p}.Provenance(), " ", "")
					if i == 2 {
						continue // step
					}
					if a != b {
						ok, why = false, "argument "+a+" differs from the primary key's "+b
					}
				}
			}
		}
		c.Check(ok, "fe-key-alternatives-same-generator", rel+".GenerateCacheKeyAlternatives", p.Pos(alt.Decl.Pos()), "alternative-key-differs", why)
	}
}
