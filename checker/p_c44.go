package main

import (
	"go/ast"
	"go/token"
	"strings"
)

func init() {
	register(&Property{
		ID:    "C44",
		Title: "Sharded query execution returns the unsharded result",
		Explain: "Only the partition clauses are decided. (1) Shard membership is hash(selected labels) mod totalShards == shardIndex: ShardMatcher.MatchesZLabels resets its (pooled) buffer first, appends name, separator, value, separator only for labels accepted by shardByLabel, hashes exactly that buffer and compares hash % totalShards with shardIndex; an unsharded matcher accepts everything. " +
			"(2) shardByLabel, as a truth table (E9): accepted ⇔ (by ∧ label in the sharding set) ∨ (¬by ∧ label not in the set) — so series that agree on the sharding labels produce the same hash input. " +
			"(3) querySharder.shardQuery issues exactly one request per index 0..numShards−1, each with TotalShards = numShards and the same By/Labels from one analysis; Do merges the responses of all of them. " +
			"Hence every series matches exactly one of the issued shards and series agreeing on the sharding labels match the same one.",
		Assume: []string{"that a query is shardable at all (QueryAnalyzer) and that merging shard results equals the unsharded evaluation is PromQL semantics and is not decided", "xxhash is a function of its input"},
		Run:    runC44,
	})
}

func runC44(c *Ctx) {
	c.Rule("shard-membership-hash-mod", "buffer reset; only selected labels hashed; hash % total == index", 1)
	c.Rule("shard-label-selection", "by ∧ in-set or ¬by ∧ not-in-set", 1)
	c.Rule("one-request-per-shard", "indices 0..n-1 once each, same analysis, all merged", 2)
	c.Rule("label-set-helpers-keep-non-nil", "intersect/without/union never turn a known grouping into nil", 3)
	p := c.Load("pkg/store/storepb", "pkg/queryfrontend")
	if p == nil {
		return
	}
	const rel = "pkg/store/storepb"
	if fn := p.Func(rel, "ShardMatcher", "MatchesZLabels"); fn == nil {
		c.Incomplete("shard-membership-hash-mod", rel+".(*ShardMatcher).MatchesZLabels", "", "function not found")
	} else {
		info := fn.Info()
		bad := ""
		// unsharded accepts all
		okUnsharded := false
		if len(fn.Decl.Body.List) > 0 {
			if is, ok := fn.Decl.Body.List[0].(*ast.IfStmt); ok && strings.Contains(canon(is.Cond), "!s.isSharded") && len(is.Body.List) == 1 && stmtText(p, is.Body.List[0]) == "returntrue" {
				okUnsharded = true
			}
		}
		if !okUnsharded {
			bad = "an unsharded matcher must accept every series"
		}
		// buffer reset before the loop
		var loop *ast.RangeStmt
		resetBefore := false
		for _, st := range fn.Decl.Body.List {
			if rs, ok := st.(*ast.RangeStmt); ok {
				loop = rs
				break
			}
			if stmtText(p, st) == "*s.buf=(*s.buf)[:0]" {
				resetBefore = true
			}
		}
		if bad == "" && !resetBefore {
			bad = "the pooled buffer is not emptied before the labels are appended: the hash would depend on the previous series"
		}
		// appends only under shardByLabel, with the four components
		if bad == "" && loop != nil {
			var comps []string
			ast.Inspect(loop.Body, func(nd ast.Node) bool {
				as, ok := nd.(*ast.AssignStmt)
				if !ok || len(as.Rhs) != 1 {
					return true
				}
				call, ok := unparen(as.Rhs[0]).(*ast.CallExpr)
				if !ok || len(call.Args) != 2 {
					return true
				}
				if id, ok := call.Fun.(*ast.Ident); !ok || id.Name != "append" {
					return true
				}
				guarded := false
				for _, g := range guardsOf(p, fn, as) {
					if g.Pol {
						if cc, ok := unparen(g.Cond).(*ast.CallExpr); ok {
							if f := calleeOf(info, cc); f != nil && f.Name() == "shardByLabel" {
								guarded = true
							}
						}
					}
				}
				if !guarded {
					bad = "a label enters the hash input without passing shardByLabel"
				}
				t := strings.TrimSuffix(canon(call.Args[1]), "...")
				switch {
				case strings.HasSuffix(t, ".Name"):
					comps = append(comps, "name")
				case strings.HasSuffix(t, ".Value"):
					comps = append(comps, "value")
				case t == "sep[0]" || t == "sep":
					comps = append(comps, "sep")
				default:
					comps = append(comps, "?"+t)
				}
				return true
			})
			if bad == "" && strings.Join(comps, ",") != "name,sep,value,sep" {
				bad = "the hash input per label is [" + strings.Join(comps, ",") + "], want [name,sep,value,sep]"
			}
		} else if bad == "" {
			bad = "no loop over the labels"
		}
		// hash of the buffer, modulo, index
		if bad == "" {
			okHash, okRet := false, false
			ast.Inspect(fn.Body(), func(nd ast.Node) bool {
				switch v := nd.(type) {
				case *ast.AssignStmt:
					if len(v.Rhs) == 1 && stmtText(p, v.Rhs[0]) == "xxhash.Sum64(*s.buf)" {
						okHash = true
					}
				case *ast.ReturnStmt:
					if len(v.Results) == 1 {
						t := stmtText(p, v.Results[0])
						if t == "hash%uint64(s.totalShards)==uint64(s.shardIndex)" {
							okRet = true
						}
					}
				}
				return true
			})
			if !okHash {
				bad = "the hash is not taken over exactly the buffer of selected labels"
			} else if !okRet {
				bad = "membership is not hash % totalShards == shardIndex"
			}
		}
		c.Check(bad == "", "shard-membership-hash-mod", rel+".(*ShardMatcher).MatchesZLabels", p.Pos(fn.Decl.Pos()), "shard-membership", bad)
	}
	if fn := p.Func(rel, "", "shardByLabel"); fn == nil {
		c.Incomplete("shard-label-selection", rel+".shardByLabel", "", "function not found")
	} else {
		x := newE9(p, fn, func(e ast.Expr, text string) string {
			t := strings.ReplaceAll(text, " ", "")
			switch t {
			case "groupingBy":
				return "by"
			case "shardHasLabel":
				return "has"
			}
			return ""
		})
		n, cx, err := e9Table([]string{"by", "has"}, intRange(0, 1), nil,
			func(env map[string]int64) (int64, error) { v, err := x.evalBody(fn.Decl.Body.List, env); return b2i(v.b), err },
			func(env map[string]int64) int64 { return b2i((env["by"] == 1 && env["has"] == 1) || (env["by"] == 0 && env["has"] == 0)) })
		c.Stats["assignments_evaluated"] += n
		reportE9(c, "shard-label-selection", rel+".shardByLabel", p.Pos(fn.Decl.Pos()), cx, err, "label selection differs from (by ∧ in set) ∨ (without ∧ not in set)")
	}

	// (2b) nil means "no grouping seen yet" in QueryAnalysis.scopeToLabels; the set helpers must
	// therefore return a non-nil (possibly empty) slice whenever their first argument is non-nil.
	if ps := c.Load("pkg/querysharding"); ps != nil {
		for _, name := range []string{"intersect", "without", "union"} {
			fn := ps.Func("pkg/querysharding", "", name)
			construct := "pkg/querysharding." + name
			if fn == nil {
				c.Incomplete("label-set-helpers-keep-non-nil", construct, "", "function not found")
				continue
			}
			info := fn.Info()
			var params []string
			for _, f := range fn.Decl.Type.Params.List {
				for _, nm := range f.Names {
					params = append(params, nm.Name)
				}
			}
			if len(params) != 2 {
				c.Incomplete("label-set-helpers-keep-non-nil", construct, ps.Pos(fn.Decl.Pos()), "unexpected signature")
				continue
			}
			bad, pos := "", ps.Pos(fn.Decl.Pos())
			ast.Inspect(fn.Body(), func(nd ast.Node) bool {
				ret, ok := nd.(*ast.ReturnStmt)
				if !ok || len(ret.Results) != 1 || bad != "" {
					return true
				}
				r := unparen(ret.Results[0])
				gs := guardsOf(ps, fn, ret)
				x := newE9(ps, fn, func(e ast.Expr, text string) string {
					t := strings.ReplaceAll(text, " ", "")
					switch t {
					case "len(" + params[0] + ")":
						return "la"
					case "len(" + params[1] + ")":
						return "lb"
					case params[0]:
						return "pa"
					case params[1]:
						return "pb"
					}
					return ""
				})
				// which value is returned?
				kind := "other"
				switch v := r.(type) {
				case *ast.CompositeLit:
					kind = "non-nil"
				case *ast.CallExpr:
					if id, ok := v.Fun.(*ast.Ident); ok && id.Name == "make" {
						kind = "non-nil"
					}
				case *ast.Ident:
					switch {
					case isNil(info, v):
						kind = "nil"
					case v.Name == params[0]:
						kind = "pa"
					case v.Name == params[1]:
						kind = "pb"
					default:
						// local: every definition must build a non-nil slice
						kind = "non-nil"
						n := 0
						ast.Inspect(fn.Body(), func(y ast.Node) bool {
							switch d := y.(type) {
							case *ast.AssignStmt:
								for i, lh := range d.Lhs {
									if objOf(info, lh) != objOf(info, v) || i >= len(d.Rhs) {
										continue
									}
									n++
									rr := unparen(d.Rhs[i])
									okDef := false
									switch w := rr.(type) {
									case *ast.CompositeLit:
										okDef = true
									case *ast.CallExpr:
										if id, ok := w.Fun.(*ast.Ident); ok && (id.Name == "make" || (id.Name == "append" && len(w.Args) > 0 && objOf(info, w.Args[0]) == objOf(info, v))) {
											okDef = true
										}
									}
									if !okDef {
										kind = "maybe-nil"
									}
								}
							case *ast.ValueSpec:
								for i, nm := range d.Names {
									if info.Defs[nm] == objOf(info, v) {
										n++
										if i >= len(d.Values) {
											kind = "maybe-nil" // `var result []string` is nil until something is appended
										}
									}
								}
							}
							return true
						})
						if n == 0 {
							kind = "maybe-nil"
						}
					}
				}
				switch kind {
				case "non-nil":
					return true
				case "maybe-nil", "other":
					bad, pos = "the returned slice "+canon(r)+" can be nil although the first argument is not (nil means 'no grouping seen yet' to scopeToLabels, so a cancelled grouping would be forgotten and a deeper grouping would make the query shardable again)", ps.Pos(ret.Pos())
					return true
				}
				// nil / parameter: enumerate nil-ness and emptiness; pa/pb atoms: 0 = nil, 1 = non-nil
				for m := 0; m < 16 && bad == ""; m++ {
					env := map[string]int64{"pa": int64(m & 1), "pb": int64((m >> 1) & 1), "la": int64((m >> 2) & 1), "lb": int64((m >> 3) & 1)}
					if (env["pa"] == 0 && env["la"] != 0) || (env["pb"] == 0 && env["lb"] != 0) {
						continue
					}
					if env["pa"] == 0 {
						continue // contract only for a non-nil first argument
					}
					on, err := x.evalGuards(gs, env)
					if err != nil {
						bad, pos = "path condition not understood: "+err.Error(), ps.Pos(ret.Pos())
						break
					}
					if !on {
						continue
					}
					isNilRet := kind == "nil" || (kind == "pb" && env["pb"] == 0)
					if isNilRet {
						bad, pos = "nil is returned for a non-nil first argument (path: "+guardsString(gs)+")", ps.Pos(ret.Pos())
					}
				}
				return true
			})
			c.Check(bad == "", "label-set-helpers-keep-non-nil", construct, pos, "nil-label-set", bad)
		}
	}

	const fe = "pkg/queryfrontend"
	if fn := p.Func(fe, "querySharder", "shardQuery"); fn == nil {
		c.Incomplete("one-request-per-shard", fe+".(querySharder).shardQuery", "", "function not found")
	} else {
		bad := ""
		var loop *ast.ForStmt
		ast.Inspect(fn.Body(), func(nd ast.Node) bool {
			if f, ok := nd.(*ast.ForStmt); ok {
				loop = f
			}
			return true
		})
		if loop == nil || loop.Init == nil || loop.Cond == nil || loop.Post == nil {
			bad = "no counted loop over the shards"
		} else {
			if stmtText(p, loop.Init) != "i:=0" || stmtText(p, loop.Cond) != "i<s.numShards" || stmtText(p, loop.Post) != "i++" {
				bad = "the loop does not run i = 0 .. numShards−1"
			}
			fields := map[string]string{}
			ast.Inspect(loop.Body, func(nd ast.Node) bool {
				if kv, ok := nd.(*ast.KeyValueExpr); ok {
					fields[canon(kv.Key)] = stmtText(p, kv.Value)
				}
				return true
			})
			want := map[string]string{"TotalShards": "int64(s.numShards)", "ShardIndex": "int64(i)", "By": "analysis.ShardBy()", "Labels": "analysis.ShardingLabels()"}
			for k, v := range want {
				if fields[k] != v && bad == "" {
					bad = "ShardInfo." + k + " is " + fields[k] + ", want " + v
				}
			}
			okStore := false
			ast.Inspect(loop.Body, func(nd ast.Node) bool {
				if as, ok := nd.(*ast.AssignStmt); ok && len(as.Lhs) == 1 && canon(as.Lhs[0]) == "reqs[i]" {
					okStore = true
				}
				return true
			})
			if bad == "" && !okStore {
				bad = "the request of shard i is not stored at position i"
			}
		}
		c.Check(bad == "", "one-request-per-shard", fe+".(querySharder).shardQuery", p.Pos(fn.Decl.Pos()), "shard-requests", bad)
	}
	if fn := p.Func(fe, "querySharder", "Do"); fn == nil {
		c.Incomplete("one-request-per-shard", fe+".(querySharder).Do", "", "function not found")
	} else {
		info := fn.Info()
		okAll, okMerge := false, false
		ast.Inspect(fn.Body(), func(nd ast.Node) bool {
			switch v := nd.(type) {
			case *ast.RangeStmt:
				if canon(v.X) == "reqResps" && len(v.Body.List) == 1 && strings.HasPrefix(stmtText(p, v.Body.List[0]), "resps=append(resps,") {
					okAll = true
				}
			case *ast.CallExpr:
				if f := calleeOf(info, v); f != nil && f.Name() == "MergeResponse" && v.Ellipsis != token.NoPos && canon(v.Args[len(v.Args)-1]) == "resps" {
					okMerge = true
				}
			}
			return true
		})
		c.Check(okAll && okMerge, "one-request-per-shard", fe+".(querySharder).Do", p.Pos(fn.Decl.Pos()), "shard-responses-merged",
			"the responses of all shard requests must be collected and merged")
	}
}
