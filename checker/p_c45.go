package main

import (
	"go/ast"
	"go/types"
	"strings"
)

func init() {
	register(&Property{
		ID:    "C45",
		Title: "Rules API label filters follow Prometheus semantics",
		Explain: "E12 quantifier shape: rules.matches is summarised (structural recursion over its statements, flags and early exits) into a quantified boolean formula over the opaque atom 'matcher m matches the rule's non-templated label value' and compared on every finite model (domain sizes 0..2 quick / 0..3 thorough, all truth assignments) with the specification " +
			"empty(sets) OR EXISTS set. FORALL m in set. match(m). " +
			"Also: the builder that feeds the matchers only receives labels whose template parses to a single text node (Set is dominated by that test); filterRulesByMatchers keeps a rule iff matches(...) is true (keep statement on the true edge); dedupRules calls removeReplicaLabels for every rule before sort.Slice and compares with Rule.Compare.",
		Assume: []string{"labels.Matcher.Matches and text/template parsing are opaque and trusted"},
		Run:    runC45,
	})
}

func runC45(c *Ctx) {
	c.Rule("selector-sets-shape", "matches() == empty(sets) || ANY set. ALL m in set. Matches(m)", 1)
	c.Rule("templated-labels-excluded", "builder.Set only under the single-text-node test", 1)
	c.Rule("filter-keeps-iff-matches", "rule kept on the true edge of matches()", 1)
	c.Rule("dedup-order", "replica labels removed before sorting; comparator is Rule.Compare", 1)
	p := c.Load("pkg/rules")
	if p == nil {
		return
	}
	maxD := 2
	if c.Tier == "thorough" {
		maxD = 3
	}
	fn := p.Func("pkg/rules", "", "matches")
	if fn == nil {
		c.Incomplete("selector-sets-shape", "pkg/rules.matches", "", "function not found")
		return
	}
	cls := bfClassifier{
		Atom: func(t string) (string, bool) {
			if strings.Contains(t, ".Matches(") {
				return "match", false
			}
			return "", false
		},
		Domain: func(t string) string {
			switch {
			case t == "matcherSets":
				return "S"
			case strings.HasPrefix(t, "$"):
				return "M"
			}
			return ""
		},
	}
	f, x := extractBF(p, fn, 0, cls)
	spec := bfOr(sEmpty("S"), sAny("s", "S", nil, sAll("m", "M", []string{"s"}, sAtom("match", "s", "m"))))
	construct := "pkg/rules.matches"
	pos := p.Pos(fn.Decl.Pos())
	c.Stats["loops_summarised"] += x.NLoops
	if len(x.errs) > 0 {
		c.Incomplete("selector-sets-shape", construct, pos, "shape not recognised: "+strings.Join(x.errs, "; "))
	} else {
		n, cx := bfEquivalent(f, spec, maxD)
		c.Stats["models_compared"] += n
		if cx != "" {
			c.Bad("selector-sets-shape", construct, pos, "shape:"+f.String(), "extracted "+f.String()+" differs from specification "+spec.String()+": "+cx)
		} else {
			c.OK("selector-sets-shape", construct, pos, f.String())
		}
	}

	// templated labels excluded: every b.Set(...) inside matches (incl. the Range closure) is
	// dominated by the true edge of a condition mentioning parse.NodeText and len(...Nodes) == 1
	info := fn.Info()
	nSet := 0
	for _, u := range append([]*Fn{fn}, p.Lits(fn)...) {
		g := buildCFG(u)
		_ = g
		ast.Inspect(u.Body(), func(n ast.Node) bool {
			if l, ok := n.(*ast.FuncLit); ok && l != u.Lit {
				return false
			}
			call, ok := n.(*ast.CallExpr)
			if !ok || !isCallTo(info, call, "(github.com/prometheus/prometheus/model/labels.Builder).Set") {
				return true
			}
			nSet++
			ok2 := false
			// walk up the enclosing if statements
			for par := p.ParentOf(u.Pkg, n); par != nil; par = p.ParentOf(u.Pkg, par) {
				if ifs, isIf := par.(*ast.IfStmt); isIf && n.Pos() >= ifs.Body.Pos() && n.End() <= ifs.Body.End() {
					var hasText, hasOne, hasErrNil bool
					refine(ifs.Cond, true, func(atom ast.Expr, t bool) {
						s := exprString(atom)
						if t && strings.Contains(s, "NodeText") && strings.Contains(s, "==") {
							hasText = true
						}
						if t && strings.Contains(s, "len(") && strings.Contains(s, "Nodes") && strings.HasSuffix(strings.ReplaceAll(s, " ", ""), "==1") {
							hasOne = true
						}
						if x, nonNil, ok := nilTest(info, atom); ok && nonNil != t {
							if tv, ok := info.Types[x]; ok && types.TypeString(tv.Type, nil) == "error" {
								hasErrNil = true
							}
						}
					})
					if hasText && hasOne && hasErrNil {
						ok2 = true
					}
				}
				if par == u.Node() {
					break
				}
			}
			c.Check(ok2, "templated-labels-excluded", "pkg/rules.matches#builder.Set", p.Pos(call.Pos()), "set-not-guarded",
				"label is added to the matched label set without the guard 'template parsed, exactly one node, of type NodeText'")
			return true
		})
	}
	if nSet == 0 {
		c.Observe("templated-labels-excluded", "pkg/rules.matches#builder.Set", pos, "no builder.Set call found")
	}

	// filter keeps iff matches
	ff := p.Func("pkg/rules", "", "filterRulesByMatchers")
	if ff == nil {
		c.Incomplete("filter-keeps-iff-matches", "pkg/rules.filterRulesByMatchers", "", "function not found")
	} else {
		finfo := ff.Info()
		found := false
		ast.Inspect(ff.Body(), func(n ast.Node) bool {
			ifs, ok := n.(*ast.IfStmt)
			if !ok {
				return true
			}
			call, ok := unparen(ifs.Cond).(*ast.CallExpr)
			pol := true
			if !ok {
				if u, isNot := unparen(ifs.Cond).(*ast.UnaryExpr); isNot && u.Op.String() == "!" {
					call, ok = unparen(u.X).(*ast.CallExpr)
					pol = false
				}
			}
			if !ok || calleeOf(finfo, call) == nil || calleeOf(finfo, call) != fn.Obj {
				return true
			}
			found = true
			// the keep statement: an assignment into g.Rules[...] or append in the branch
			keepsIn := func(b *ast.BlockStmt) bool {
				k := false
				ast.Inspect(b, func(m ast.Node) bool {
					if as, ok := m.(*ast.AssignStmt); ok {
						for _, l := range as.Lhs {
							if strings.Contains(exprString(l), "Rules") {
								k = true
							}
						}
					}
					return true
				})
				return k
			}
			var good bool
			if pol {
				good = keepsIn(ifs.Body)
			} else {
				// `if !matches { continue }` form: keep must follow, not be inside
				good = !keepsIn(ifs.Body)
				hasCont := false
				ast.Inspect(ifs.Body, func(m ast.Node) bool {
					if b, ok := m.(*ast.BranchStmt); ok && b.Tok.String() == "continue" {
						hasCont = true
					}
					return true
				})
				good = good && hasCont
			}
			c.Check(good, "filter-keeps-iff-matches", "pkg/rules.filterRulesByMatchers", p.Pos(ifs.Pos()), "inverted-or-missing-keep",
				"the rule is not kept exactly on the edge where matches(...) is true")
			return true
		})
		if !found {
			c.Incomplete("filter-keeps-iff-matches", "pkg/rules.filterRulesByMatchers", p.Pos(ff.Decl.Pos()), "no branch on matches(...) found")
		}
	}

	// dedup order
	df := p.Func("pkg/rules", "", "dedupRules")
	if df == nil {
		c.Incomplete("dedup-order", "pkg/rules.dedupRules", "", "function not found")
		return
	}
	e := newE3(p, df, []Ev{
		{Name: "rm", Match: callTo("pkg/rules.removeReplicaLabels")},
		{Name: "sort", Match: callTo("sort.Slice", "sort.SliceStable", "slices.SortFunc", "slices.SortStableFunc")},
	})
	sorts := e.Calls("sort")
	if len(sorts) == 0 {
		c.Incomplete("dedup-order", "pkg/rules.dedupRules", p.Pos(df.Decl.Pos()), "no sort call found")
		return
	}
	for _, sc := range sorts {
		b, _ := e.Before(sc, "rm")
		// the removal happens in a range loop over all rules before the sort: the loop may run zero
		// times only if rules is empty (guarded by the len(rules)==0 early return)
		rmLoopOverAll := false
		ast.Inspect(df.Body(), func(n ast.Node) bool {
			if r, ok := n.(*ast.RangeStmt); ok && r.End() < sc.Pos() && exprString(r.X) == "rules" {
				for _, cl := range callsIn(r.Body) {
					if isCallTo(df.Info(), cl, "pkg/rules.removeReplicaLabels") {
						rmLoopOverAll = true
					}
				}
			}
			return true
		})
		usesCompare := false
		ast.Inspect(sc, func(n ast.Node) bool {
			if cl, ok := n.(*ast.CallExpr); ok {
				if f := calleeOf(df.Info(), cl); f != nil && f.Name() == "Compare" && strings.Contains(funcFullName(f), "rulespb.Rule)") {
					usesCompare = true
				}
			}
			return true
		})
		c.Check(rmLoopOverAll && b&eNo != 0 || b == eOK, "dedup-order", "pkg/rules.dedupRules#remove-before-sort", p.Pos(sc.Pos()), "sort-before-replica-label-removal",
			"sort is reachable before replica labels were removed from every rule")
		c.Check(usesCompare, "dedup-order", "pkg/rules.dedupRules#comparator", p.Pos(sc.Pos()), "comparator-not-Rule.Compare", "the sort comparator does not use rulespb.Rule.Compare")
	}
}
