package main

import (
	"fmt"
	"go/ast"
	"go/token"
	"strings"
)

func init() {
	register(&Property{
		ID:    "C46",
		Title: "The alert queue is a bounded FIFO that never loses a wake-up",
		Explain: "(1) E1 lockset: Queue.queue is read and written only under q.mtx. " +
			"(2) Wake-up: in Push no return separates the statement that appends to q.queue from a following non-blocking send on q.morec (select with a send case and a default), in Pop the queue is re-armed exactly when len(q.queue) > 0 after the batch was taken (E9), and morec is created with capacity >= 1 (otherwise the non-blocking send would drop the wake-up). " +
			"(3) Bound and order by length-domain abstract interpretation of Push and Pop: for every initial queue length 0..cap, batch length 0..4, capacity 1..3 (thorough: up to 4/6) and every outcome of the length-independent conditions, the extracted length arithmetic leaves len(q.queue) <= capacity at every exit, never slices out of range, shrinks the queue and the incoming batch only from the front (x = x[d:]) and grows the queue only at the back (append(q.queue, ...)); Pop removes from the front exactly the n = min(len, maxBatchSize) elements it returns.",
		Assume: []string{"Go channel semantics; scheduler fairness is not decided"},
		Run:    runC46,
	})
}

func runC46(c *Ctx) {
	c.Rule("queue-lockset", "queue accessed only under mtx", 4)
	c.Rule("wake-up", "append followed by non-blocking send; Pop re-arms iff non-empty; buffered channel", 3)
	c.Rule("bounded-fifo", "len(queue) <= capacity at every exit; drop from front, append at back", 3)
	p := c.Load("pkg/alert")
	if p == nil {
		return
	}
	const rel = "pkg/alert"
	cfg := &locksetCfg{Rule: "queue-lockset", Guards: []guardSpec{{rel, "Queue", "queue", "mtx"}}}
	res := &locksetResult{}
	for _, fn := range p.AllFuncs(true) {
		if strings.Contains(fn.Name, "Queue)") {
			checkLockset(c, p, cfg, fn, lockState{}, res)
		}
	}
	c.Stats["guarded_accesses"] += res.Accesses

	push := p.Func(rel, "Queue", "Push")
	pop := p.Func(rel, "Queue", "Pop")
	ctor := p.Func(rel, "", "NewQueue")
	if push == nil || pop == nil || ctor == nil {
		c.Incomplete("wake-up", rel+".Queue", "", "Push/Pop/NewQueue not found")
		return
	}
	isMorecSend := func(st ast.Stmt) bool {
		sel, ok := st.(*ast.SelectStmt)
		if !ok {
			return false
		}
		send, def := false, false
		for _, cl := range sel.Body.List {
			cc := cl.(*ast.CommClause)
			if cc.Comm == nil {
				def = true
			} else if s, ok := cc.Comm.(*ast.SendStmt); ok && strings.HasSuffix(canon(s.Chan), ".morec") {
				send = true
			}
		}
		return send && def
	}
	// (2a) Push: every append to the queue is followed by the signal, no return in between
	{
		var appends []ast.Stmt
		ast.Inspect(push.Body(), func(n ast.Node) bool {
			if as, ok := n.(*ast.AssignStmt); ok && len(as.Lhs) == 1 && strings.HasSuffix(canon(as.Lhs[0]), ".queue") {
				if call, ok := unparen(as.Rhs[0]).(*ast.CallExpr); ok {
					if id, ok := call.Fun.(*ast.Ident); ok && id.Name == "append" {
						appends = append(appends, as)
					}
				}
			}
			return true
		})
		if len(appends) == 0 {
			c.Bad("wake-up", rel+".(*Queue).Push#append", p.Pos(push.Decl.Pos()), "no-append", "Push never appends to the queue")
		}
		for i, a := range appends {
			// top-level statement of Push containing the append
			var top ast.Stmt
			idx := -1
			for j, st := range push.Decl.Body.List {
				if within(a, st.Pos(), st.End()) {
					top, idx = st, j
				}
			}
			ok, why := false, "no non-blocking send on morec follows the append"
			if top != nil {
				for _, st := range push.Decl.Body.List[idx+1:] {
					if isMorecSend(st) {
						ok, why = true, ""
						break
					}
					hasRet := false
					ast.Inspect(st, func(n ast.Node) bool {
						if _, isRet := n.(*ast.ReturnStmt); isRet {
							hasRet = true
						}
						return true
					})
					if hasRet {
						why = "a return can be taken between the append and the wake-up signal"
						break
					}
				}
				// a return inside the same top-level statement after the append
				if ok && top != a {
					ast.Inspect(top, func(n ast.Node) bool {
						if r, isRet := n.(*ast.ReturnStmt); isRet && r.Pos() > a.End() {
							ok, why = false, "a return can be taken between the append and the wake-up signal"
						}
						return true
					})
				}
			}
			c.Check(ok, "wake-up", fmt.Sprintf("%s.(*Queue).Push#append[%d]", rel, i), p.Pos(a.Pos()), "append-without-signal", "alerts are queued but "+why+": a sleeping sender would never be woken")
		}
	}
	// (2b) Pop re-arms iff non-empty
	{
		var rearm *ast.IfStmt
		ast.Inspect(pop.Body(), func(n ast.Node) bool {
			if ifs, ok := n.(*ast.IfStmt); ok && len(ifs.Body.List) > 0 && isMorecSend(ifs.Body.List[0]) {
				rearm = ifs
			}
			return true
		})
		if rearm == nil {
			// unconditional re-arm is also fine
			un := false
			for _, st := range pop.Decl.Body.List {
				if isMorecSend(st) {
					un = true
				}
			}
			c.Check(un, "wake-up", rel+".(*Queue).Pop#re-arm", p.Pos(pop.Decl.Pos()), "no-re-arm", "Pop does not re-arm morec when alerts remain: the rest of the queue is only sent after the next Push")
		} else {
			x := newE9(p, pop, func(e ast.Expr, text string) string {
				if canon(e) == "len(q.queue)" || strings.HasSuffix(canon(e), ".queue)") && strings.HasPrefix(canon(e), "len(") {
					return "n"
				}
				return ""
			})
			_, cx, err := e9Table([]string{"n"}, intRange(0, 3), nil,
				func(env map[string]int64) (int64, error) { v, err := x.eval(rearm.Cond, env); return b2i(v.b), err },
				func(env map[string]int64) int64 { return b2i(env["n"] > 0) })
			reportE9(c, "wake-up", rel+".(*Queue).Pop#re-arm", p.Pos(rearm.Pos()), cx, err, "Pop must re-arm the wake-up exactly when alerts remain (len(queue) > 0)")
		}
	}
	// (2c) channel capacity
	{
		ok := false
		ast.Inspect(ctor.Body(), func(n ast.Node) bool {
			if kv, isKV := n.(*ast.KeyValueExpr); isKV && exprString(kv.Key) == "morec" {
				if call, isCall := unparen(kv.Value).(*ast.CallExpr); isCall && len(call.Args) == 2 {
					if v, isC := constInt(ctor.Info(), call.Args[1]); isC && v >= 1 {
						ok = true
					}
				}
			}
			return true
		})
		c.Check(ok, "wake-up", rel+".NewQueue#morec-buffered", p.Pos(ctor.Decl.Pos()), "unbuffered-wakeup-channel", "morec must be a buffered channel (capacity >= 1): with an unbuffered channel the non-blocking send is dropped whenever no Pop is waiting")
	}

	// (3) length-domain interpretation
	maxCap, maxBatch := int64(3), int64(4)
	if c.Tier == "thorough" {
		maxCap, maxBatch = 4, 6
	}
	recv := "q"
	if push.Decl.Recv != nil && len(push.Decl.Recv.List[0].Names) == 1 {
		recv = push.Decl.Recv.List[0].Names[0].Name
	}
	param := "alerts"
	if len(push.Decl.Type.Params.List) == 1 && len(push.Decl.Type.Params.List[0].Names) == 1 {
		param = push.Decl.Type.Params.List[0].Names[0].Name
	}
	qk, ck := recv+".queue", recv+".capacity"
	runs, paths := 0, 0
	var firstViol, violPos string
	dirBad := map[string]bool{}
	unknown := map[string]bool{}
	for cp := int64(1); cp <= maxCap && firstViol == ""; cp++ {
		for lq := int64(0); lq <= cp && firstViol == ""; lq++ {
			for la := int64(0); la <= maxBatch && firstViol == ""; la++ {
				li := &lenInterp{p: p, fn: push, info: push.Info(), slices: map[string]bool{qk: true, param: true},
					atoms: func(t string) string {
						if t == ck {
							return ck
						}
						return ""
					},
					check: func(s lenState, at ast.Node) string {
						if s.v[qk] > s.v[ck] {
							return fmt.Sprintf("len(%s)=%d exceeds capacity %d", qk, s.v[qk], s.v[ck])
						}
						return ""
					}}
				init := lenState{v: map[string]int64{qk: lq, param: la, ck: cp}}
				out := li.run(push.Decl.Body.List, init)
				runs++
				for _, s := range out {
					if msg := li.check(s, push.Decl.Body); msg != "" && li.viol == "" {
						li.fail(push.Decl.Body, s, msg)
						li.violPos = push.Decl.Body.Rbrace
					}
				}
				paths += len(out) + len(li.finals)
				if li.viol != "" {
					firstViol = fmt.Sprintf("%s (initial queue %d, batch %d, capacity %d)", li.viol, lq, la, cp)
					violPos = p.Pos(li.violPos)
				}
				for _, s := range li.shrinks {
					if strings.Contains(s, "=other-slice:") {
						dirBad[s] = true
					}
				}
				for _, g := range li.grows {
					if strings.HasPrefix(g, qk+"=append-to-other") {
						dirBad[g] = true
					}
				}
				for _, u := range li.unknown {
					unknown[u] = true
				}
			}
		}
	}
	c.Stats["abstract_runs"] += runs
	c.Stats["abstract_paths"] += paths
	switch {
	case len(unknown) > 0:
		c.Incomplete("bounded-fifo", rel+".(*Queue).Push#bound", p.Pos(push.Decl.Pos()), "statement forms not understood by the length interpreter: "+strings.Join(keysOf(unknown), "; "))
	case firstViol != "":
		c.Bad("bounded-fifo", rel+".(*Queue).Push#bound", violPos, "queue-exceeds-capacity", "length-domain interpretation of Push: "+firstViol)
	default:
		c.OK("bounded-fifo", rel+".(*Queue).Push#bound", p.Pos(push.Decl.Pos()), "")
	}
	c.Check(len(dirBad) == 0, "bounded-fifo", rel+".(*Queue).Push#order", p.Pos(push.Decl.Pos()), "not-fifo:"+strings.Join(keysOf(dirBad), ","),
		"the queue / batch must be trimmed from the front and extended at the back; found "+strings.Join(keysOf(dirBad), ", "))

	// Pop
	{
		mb := recv + ".maxBatchSize"
		precv := recv
		if pop.Decl.Recv != nil && len(pop.Decl.Recv.List[0].Names) == 1 {
			precv = pop.Decl.Recv.List[0].Names[0].Name
		}
		pq, pmb := precv+".queue", precv+".maxBatchSize"
		_ = mb
		viol, vpos := "", ""
		dirBadPop := map[string]bool{}
		for b := int64(1); b <= 3 && viol == ""; b++ {
			for lq := int64(0); lq <= 4 && viol == ""; lq++ {
				var retLen int64 = -1
				li := &lenInterp{p: p, fn: pop, info: pop.Info(), slices: map[string]bool{pq: true},
					atoms: func(t string) string {
						if t == pmb {
							return pmb
						}
						return ""
					},
					check: func(s lenState, at ast.Node) string {
						if r, ok := at.(*ast.ReturnStmt); ok && len(r.Results) == 1 {
							if se, ok := unparen(r.Results[0]).(*ast.SliceExpr); ok && se.High != nil {
								if base, ok := s.v[canon(se.X)]; ok {
									hi := base
									if id, ok := unparen(se.High).(*ast.Ident); ok {
										hi = s.v[id.Name]
									}
									retLen = hi
								}
							} else if isNil(pop.Info(), r.Results[0]) {
								return ""
							}
						}
						want := lq
						if b < want {
							want = b
						}
						if retLen >= 0 {
							if retLen != want {
								return fmt.Sprintf("Pop returns %d alerts, expected min(len,maxBatchSize)=%d", retLen, want)
							}
							if s.v[pq] != lq-want {
								return fmt.Sprintf("queue keeps %d alerts after returning %d of %d", s.v[pq], retLen, lq)
							}
						}
						return ""
					}}
				init := lenState{v: map[string]int64{pq: lq, pmb: b}}
				li.run(pop.Decl.Body.List, init)
				if li.viol != "" {
					viol, vpos = fmt.Sprintf("%s (queue %d, maxBatchSize %d)", li.viol, lq, b), p.Pos(li.violPos)
				}
				if retLen < 0 && li.viol == "" {
					viol, vpos = "no `return as[:n]` understood", p.Pos(pop.Decl.Pos())
				}
				for _, s := range li.shrinks {
					if strings.HasPrefix(s, pq+"=other-slice") {
						dirBadPop[s] = true
					}
				}
			}
		}
		c.Check(viol == "" && len(dirBadPop) == 0, "bounded-fifo", rel+".(*Queue).Pop#front-batch", firstNonEmpty(vpos, p.Pos(pop.Decl.Pos())), "pop-not-front-batch",
			"length-domain interpretation of Pop: "+viol+" "+strings.Join(keysOf(dirBadPop), ","))
	}
}

func keysOf(m map[string]bool) []string {
	var out []string
	for k := range m {
		out = append(out, k)
	}
	sortStrings(out)
	return out
}

func firstNonEmpty(a, b string) string {
	if a != "" {
		return a
	}
	return b
}

func sortStrings(s []string) {
	for i := 1; i < len(s); i++ {
		for j := i; j > 0 && s[j] < s[j-1]; j-- {
			s[j], s[j-1] = s[j-1], s[j]
		}
	}
}

var _ = token.NoPos
