package main

import (
	"go/ast"
	"go/types"
	"sort"
	"strings"
)

func init() {
	register(&Property{
		ID:    "C47",
		Title: "The config reloader applies the latest configuration",
		Explain: "In Reloader.apply: (1) E3: the last-applied hashes (lastCfgHash, lastCfgDirsHash, lastWatchedDirsHash) and forceReload=false are assigned only after triggerReload returned nil in the same retry attempt; when the retry loop gives up forceReload is set to true; " +
			"the 'nothing to do' return is reachable only when !forceReload && !cfgDirsChanged && both remaining hashes are equal (E9 over the boolean atoms). " +
			"(2) Output bookkeeping: stale outputs are removed by ranging over the previous output set and deleting entries absent from the current one, and the previous set is replaced by the current one in the same pass — unconditionally in the config-dir loop body after the removal, and nowhere else (if it were committed only after a successful reload, the next pass would try to remove an already removed file, fail, and never reach the reload). " +
			"(3) normalize writes the output through a temporary file and os.Rename and returns the errors of read / gunzip / expand / write / rename (E4). " +
			"(4) every non-directory entry of a config dir is both hashed and normalised before the next entry (E3 at the loop's back edge; the only skip is IsDir()).",
		Assume: []string{"fsnotify timing, environment expansion semantics and 'eventually' are not decided"},
		Run:    runC47,
	})
}

func runC47(c *Ctx) {
	c.Rule("hashes-after-successful-reload", "last-applied state committed only after triggerReload succeeded; give-up forces a reload", 5)
	c.Rule("no-change-return", "early return only when nothing changed and no reload is pending", 1)
	c.Rule("output-set-bookkeeping", "stale outputs removed from previous-minus-current; previous replaced in the same pass", 2)
	c.Rule("atomic-output", "temp file + rename; errors returned", 2)
	c.Rule("every-entry-processed", "each non-directory entry hashed and normalised", 1)
	p := c.Load("pkg/reloader")
	if p == nil {
		return
	}
	const rel = "pkg/reloader"
	fn := p.Func(rel, "Reloader", "apply")
	if fn == nil {
		c.Incomplete("hashes-after-successful-reload", rel+".(*Reloader).apply", "", "function not found")
		return
	}
	info := fn.Info()
	recv := recvObj(fn)
	isRecvField := func(e ast.Expr, names ...string) string {
		e = unparen(e)
		if ix, ok := e.(*ast.IndexExpr); ok {
			e = unparen(ix.X)
		}
		sel, ok := e.(*ast.SelectorExpr)
		if !ok {
			return ""
		}
		id, ok := unparen(sel.X).(*ast.Ident)
		if !ok || objOf(info, id) != recv {
			return ""
		}
		for _, n := range names {
			if sel.Sel.Name == n {
				return n
			}
		}
		return ""
	}
	stateFields := []string{"lastCfgHash", "lastCfgDirsHash", "lastWatchedDirsHash", "forceReload"}
	isTrigger := func(i *types.Info, call *ast.CallExpr) bool {
		f := calleeOf(i, call)
		return f != nil && (f.Name() == "triggerReload" || f.Name() == "TriggerReload")
	}
	// (1) every assignment to the state fields
	units := append([]*Fn{fn}, p.Lits(fn)...)
	seen := map[string]int{}
	forceTrueOnGiveUp := false
	for _, u := range units {
		var e *E3
		inspectNoLit(u.Body(), func(n ast.Node) bool {
			as, ok := n.(*ast.AssignStmt)
			if !ok {
				return true
			}
			for i, l := range as.Lhs {
				f := isRecvField(l, stateFields...)
				if f == "" || i >= len(as.Rhs) {
					continue
				}
				if _, isIx := unparen(l).(*ast.IndexExpr); isIx {
					continue
				}
				if f == "forceReload" {
					if tv, ok := info.Types[as.Rhs[i]]; ok && tv.Value != nil && tv.Value.ExactString() == "true" {
						// allowed only on the give-up branch of the retry helper
						for _, g := range guardsOf(p, u, as) {
							if g.Pol && g.Init != nil && strings.Contains(exprString(g.Cond), "!= nil") {
								if ias, ok := g.Init.(*ast.AssignStmt); ok && len(ias.Rhs) == 1 && strings.Contains(exprString(ias.Rhs[0]), "Retry") {
									forceTrueOnGiveUp = true
								}
							}
						}
						continue
					}
				}
				if e == nil {
					e = newE3(p, u, []Ev{{Name: "reload", Match: isTrigger}})
				}
				b, _ := e.Before(as, "reload")
				seen[f]++
				c.Check(b == eOK, "hashes-after-successful-reload", rel+".(*Reloader).apply#"+f, p.Pos(as.Pos()), "state-committed-without-successful-reload:"+f,
					"r."+f+" is updated on a path where the reload is "+evBitsString(b)+": a failed reload would be remembered as applied and never retried")
			}
			return true
		})
	}
	for _, f := range stateFields {
		if seen[f] == 0 {
			c.Bad("hashes-after-successful-reload", rel+".(*Reloader).apply#"+f, p.Pos(fn.Decl.Pos()), "state-never-committed:"+f, "r."+f+" is never updated after a successful reload: every pass would trigger a reload again")
		}
	}
	c.Check(forceTrueOnGiveUp, "hashes-after-successful-reload", rel+".(*Reloader).apply#force-on-give-up", p.Pos(fn.Decl.Pos()), "no-forced-retry", "when the retry helper gives up forceReload is not set: the pending reload would be forgotten")

	// no-change return
	{
		var ret *ast.ReturnStmt
		inspectNoLit(fn.Body(), func(n ast.Node) bool {
			if r, ok := n.(*ast.ReturnStmt); ok && len(r.Results) == 1 && isNil(info, r.Results[0]) {
				if ifs, ok := p.ParentOf(fn.Pkg, p.ParentOf(fn.Pkg, r)).(*ast.IfStmt); ok && strings.Contains(exprString(ifs.Cond), "forceReload") {
					ret = r
				}
			}
			return true
		})
		if ret == nil {
			c.Incomplete("no-change-return", rel+".(*Reloader).apply#nothing-to-do", p.Pos(fn.Decl.Pos()), "the early 'nothing changed' return was not found")
		} else {
			ifs := p.ParentOf(fn.Pkg, p.ParentOf(fn.Pkg, ret)).(*ast.IfStmt)
			x := newE9(p, fn, func(e ast.Expr, text string) string {
				t := strings.ReplaceAll(text, " ", "")
				switch {
				case t == "r.forceReload":
					return "force"
				case t == "cfgDirsChanged":
					return "dirsChanged"
				case strings.HasPrefix(t, "bytes.Equal(") && strings.Contains(t, "lastCfgHash"):
					return "cfgEq"
				case strings.HasPrefix(t, "bytes.Equal(") && strings.Contains(t, "lastWatchedDirsHash"):
					return "watchedEq"
				}
				return ""
			})
			_, cx, err := e9Table([]string{"force", "dirsChanged", "cfgEq", "watchedEq"}, []int64{0, 1}, nil,
				func(env map[string]int64) (int64, error) { v, err := x.eval(ifs.Cond, env); return b2i(v.b), err },
				func(env map[string]int64) int64 {
					return b2i(env["force"] == 0 && env["dirsChanged"] == 0 && env["cfgEq"] == 1 && env["watchedEq"] == 1)
				})
			reportE9(c, "no-change-return", rel+".(*Reloader).apply#nothing-to-do", p.Pos(ifs.Pos()), cx, err,
				"apply returns without reloading although something changed or a reload is pending")
		}
	}

	// (2) output set bookkeeping
	{
		var dirLoop *ast.RangeStmt
		inspectNoLit(fn.Body(), func(n ast.Node) bool {
			if r, ok := n.(*ast.RangeStmt); ok && isRecvField(r.X, "cfgDirs") != "" && dirLoop == nil {
				dirLoop = r
			}
			return true
		})
		var writers []string
		for _, u := range units {
			ast.Inspect(u.Body(), func(n ast.Node) bool {
				if _, isLit := n.(*ast.FuncLit); isLit && n != u.Node() {
					return false
				}
				if as, ok := n.(*ast.AssignStmt); ok {
					for _, l := range as.Lhs {
						if isRecvField(l, "lastCfgDirFiles") != "" {
							writers = append(writers, u.Name+"@"+p.Pos(as.Pos()))
						}
					}
				}
				return true
			})
		}
		sort.Strings(writers)
		if dirLoop == nil {
			c.Incomplete("output-set-bookkeeping", rel+".(*Reloader).apply#dir-loop", p.Pos(fn.Decl.Pos()), "loop over cfgDirs not found")
		} else {
			// removal loop + unconditional replacement afterwards, as top-level statements of the loop body
			removeIdx, replaceIdx := -1, -1
			var curSet types.Object
			for i, st := range dirLoop.Body.List {
				hasRemove := false
				ast.Inspect(st, func(n ast.Node) bool {
					if call, ok := n.(*ast.CallExpr); ok && isCallTo(info, call, "os.Remove") {
						hasRemove = true
					}
					return true
				})
				if hasRemove {
					removeIdx = i
				}
				if as, ok := st.(*ast.AssignStmt); ok && len(as.Lhs) == 1 && len(as.Rhs) == 1 && isRecvField(as.Lhs[0], "lastCfgDirFiles") != "" {
					if ix, ok := unparen(as.Lhs[0]).(*ast.IndexExpr); ok && dirLoop.Key != nil && sameObjExpr(info, ix.Index, dirLoop.Key) {
						replaceIdx = i
						curSet = objOf(info, as.Rhs[0])
					}
				}
			}
			okRepl := removeIdx >= 0 && replaceIdx > removeIdx && len(writers) == 1 && curSet != nil
			c.Check(okRepl, "output-set-bookkeeping", rel+".(*Reloader).apply#previous-set-replaced-in-same-pass", p.Pos(dirLoop.Pos()), "output-set-not-updated-with-removal:"+strings.Join(writers, ","),
				"the remembered output set must be replaced by the current one unconditionally in the same config-dir pass, after the stale outputs were removed, and nowhere else (writers: "+strings.Join(writers, ", ")+")")
			// removal ranges over previous set and removes entries absent from the current set
			okRem := false
			if removeIdx >= 0 {
				ast.Inspect(dirLoop.Body.List[removeIdx], func(n ast.Node) bool {
					r, ok := n.(*ast.RangeStmt)
					if !ok || isRecvField(r.X, "lastCfgDirFiles") == "" || r.Key == nil {
						return true
					}
					ast.Inspect(r.Body, func(m ast.Node) bool {
						call, ok := m.(*ast.CallExpr)
						if !ok || !isCallTo(info, call, "os.Remove") || len(call.Args) != 1 || !sameObjExpr(info, call.Args[0], r.Key) {
							return true
						}
						for _, g := range guardsOf(p, fn, call) {
							if id, isID := unparen(g.Cond).(*ast.Ident); isID && !g.Pol {
								_ = id
							}
							// `_, ok := cur[outFile]; !ok`
							if u, isNot := unparen(g.Cond).(*ast.UnaryExpr); isNot && g.Pol && g.Init != nil {
								if ias, ok := g.Init.(*ast.AssignStmt); ok && len(ias.Rhs) == 1 {
									if ix, ok := unparen(ias.Rhs[0]).(*ast.IndexExpr); ok && curSet != nil && objOf(info, ix.X) == curSet && sameObjExpr(info, ix.Index, r.Key) {
										_ = u
										okRem = true
									}
								}
							}
						}
						return true
					})
					return true
				})
			}
			c.Check(okRem, "output-set-bookkeeping", rel+".(*Reloader).apply#remove-previous-minus-current", p.Pos(dirLoop.Pos()), "stale-output-removal",
				"stale outputs must be removed by ranging over the previous output set and deleting exactly the files that are absent from the current set")
			checkErrsReturned(c, p, fn, "output-set-bookkeeping", "os.Remove", callTo("os.Remove"), nil)
		}
	}

	// (3) normalize
	if nf := p.Func(rel, "Reloader", "normalize"); nf == nil {
		c.Incomplete("atomic-output", rel+".(*Reloader).normalize", "", "function not found")
	} else {
		ninfo := nf.Info()
		e := newE3(p, nf, []Ev{{Name: "write", Match: callTo("os.WriteFile")}, {Name: "rename", Match: callTo("os.Rename")}})
		rn := e.Calls("rename")
		ok := len(rn) == 1
		why := "no os.Rename"
		if ok {
			wb, _ := e.Before(rn[0], "write")
			// rename(tmp, output): first arg is what WriteFile wrote, second is the output parameter
			wr := e.Calls("write")
			ok = wb == eOK && len(wr) == 1 && sameObjExpr(ninfo, wr[0].Args[0], rn[0].Args[0])
			why = "the output is not written to a temporary file that is then renamed onto the output (write before rename: " + evBitsString(wb) + ")"
			if ok && len(nf.Decl.Type.Params.List) > 0 {
				// WriteFile must not target the output file directly
				var outParam types.Object
				for _, f := range nf.Decl.Type.Params.List {
					for _, nm := range f.Names {
						if strings.Contains(strings.ToLower(nm.Name), "output") {
							outParam = ninfo.Defs[nm]
						}
					}
				}
				if outParam != nil && objOf(ninfo, wr[0].Args[0]) == outParam {
					ok, why = false, "the output file is written in place"
				}
			}
		}
		c.Check(ok, "atomic-output", rel+".(*Reloader).normalize#temp-then-rename", p.Pos(nf.Decl.Pos()), "output-written-in-place", why)
		checkErrsReturned(c, p, nf, "atomic-output", "io-steps", func(i *types.Info, call *ast.CallExpr) bool {
			if isCallTo(i, call, "os.ReadFile", "os.WriteFile", "os.Rename", "compress/gzip.NewReader", "io.ReadAll") {
				return true
			}
			f := calleeOf(i, call)
			return f != nil && f.Name() == "expandEnv"
		}, nil)
	}

	// (4) every entry
	{
		var entLoop *ast.RangeStmt
		inspectNoLit(fn.Body(), func(n ast.Node) bool {
			if r, ok := n.(*ast.RangeStmt); ok && exprString(r.X) == "entries" {
				entLoop = r
			}
			return true
		})
		if entLoop == nil {
			c.Incomplete("every-entry-processed", rel+".(*Reloader).apply#entries", p.Pos(fn.Decl.Pos()), "loop over directory entries not found")
		} else {
			hashed, normalised := false, false
			badSkip := ""
			for _, st := range entLoop.Body.List {
				if ifs, ok := st.(*ast.IfStmt); ok && ifs.Init != nil {
					if as, ok := ifs.Init.(*ast.AssignStmt); ok && len(as.Rhs) == 1 {
						if call, ok := unparen(as.Rhs[0]).(*ast.CallExpr); ok {
							if f := calleeOf(info, call); f != nil {
								if f.Name() == "hashFile" {
									hashed = true
								}
								if f.Name() == "normalize" {
									normalised = true
								}
							}
						}
					}
				}
			}
			ast.Inspect(entLoop.Body, func(n ast.Node) bool {
				if b, ok := n.(*ast.BranchStmt); ok && (b.Tok.String() == "continue" || b.Tok.String() == "break") {
					gs := guardsOf(p, fn, b)
					last := ""
					for _, g := range gs {
						if g.Pol {
							last = exprString(g.Cond)
						}
					}
					if !strings.HasSuffix(last, ".IsDir()") {
						badSkip = last
					}
				}
				return true
			})
			c.Check(hashed && normalised && badSkip == "", "every-entry-processed", rel+".(*Reloader).apply#entries", p.Pos(entLoop.Pos()), "entry-skipped:"+badSkip,
				"every non-directory entry must be hashed and normalised unconditionally (hashed: "+boolStr(hashed)+", normalised: "+boolStr(normalised)+", other skip: "+badSkip+")")
		}
	}
}
