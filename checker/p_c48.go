package main

import (
	"fmt"
	"go/ast"
	"go/token"
	"go/types"
	"strings"
)

func init() {
	register(&Property{
		ID:    "C48",
		Title: "Bucket rewrite deletes exactly the requested data",
		Explain: "(1) Request selection: a deletion request is abandoned for a series exactly when some matcher finds the label absent or not matching (E9 truth table of the skip condition; v is lbls.Get(m.Name)); intervals are accumulated and the whole series deleted only after all matchers of that request passed, the whole series only for a request without intervals. " +
			"(2) Chunk handling in delGenericSeriesIterator.next: a chunk is dropped only when IsSubrange(d.intervals) of its own [MinTime, MaxTime]; the set of intervals applied to a kept chunk is, for every small (chunk range, interval range), exactly the set of intervals that overlap the chunk as closed ranges — evaluated (E9) from all conditions on the path to the Add, including early exits of the scan (OverlapsClosedInterval is modelled as closed-interval overlap). " +
			"(3) intersection keeps an interval iff it overlaps (closed) and clamps it to the chunk: max of the starts, min of the ends.",
		Assume: []string{"tsdb.DeletedIterator removes exactly the samples inside the intervals it is given", "chunks.Meta.OverlapsClosedInterval is closed-interval overlap"},
		Run:    runC48,
	})
}

func runC48(c *Ctx) {
	c.Rule("request-matches-all-matchers", "skip request iff label absent or not matching", 1)
	c.Rule("deletion-only-after-match", "intervals / whole-series deletion only after the matcher loop", 2)
	c.Rule("chunk-dropped-only-if-covered", "drop only under IsSubrange of the chunk's own range", 1)
	c.Rule("every-overlapping-interval-applied", "applied intervals = overlapping intervals (closed)", 1)
	c.Rule("intersection-formula", "overlap test and clamping", 2)
	p := c.Load("pkg/compactv2")
	if p == nil {
		return
	}
	const rel = "pkg/compactv2"

	if fn := p.Func(rel, "delModifierSeriesSet", "Next"); fn == nil {
		c.Incomplete("request-matches-all-matchers", rel+".(*delModifierSeriesSet).Next", "", "function not found")
	} else {
		info := fn.Info()
		construct := rel + ".(*delModifierSeriesSet).Next"
		// the matcher loop: range over <req>.Matchers
		var reqLoop, mLoop *ast.RangeStmt
		ast.Inspect(fn.Body(), func(nd ast.Node) bool {
			rs, ok := nd.(*ast.RangeStmt)
			if !ok {
				return true
			}
			if strings.HasSuffix(canon(rs.X), ".Matchers") {
				mLoop = rs
			}
			if strings.HasSuffix(canon(rs.X), ".deletions") {
				reqLoop = rs
			}
			return true
		})
		if reqLoop == nil || mLoop == nil || mLoop.Value == nil {
			c.Incomplete("request-matches-all-matchers", construct, p.Pos(fn.Decl.Pos()), "request / matcher loops not found")
		} else {
			// the skip: `if cond { continue <reqLoop label> }`
			var skip *ast.IfStmt
			for _, st := range mLoop.Body.List {
				if is, ok := st.(*ast.IfStmt); ok && len(is.Body.List) == 1 {
					if br, ok := is.Body.List[0].(*ast.BranchStmt); ok && br.Tok == token.CONTINUE && br.Label != nil {
						skip = is
					}
				}
			}
			if skip == nil {
				c.Bad("request-matches-all-matchers", construct, p.Pos(mLoop.Pos()), "no-skip", "a request whose matcher does not match is not abandoned")
			} else {
				mv := canon(mLoop.Value)
				x := newE9(p, fn, func(e ast.Expr, text string) string { return "" })
				x.AtomCmp = func(e ast.Expr, t string) string {
					// v == "" with v := lbls.Get(m.Name)
					if be, ok := unparen(e).(*ast.BinaryExpr); ok && (be.Op == token.EQL || be.Op == token.NEQ) && canon(be.Y) == `""` {
						src := expandDefText(fn, info, be.X)
						if strings.HasSuffix(src, ".Get("+mv+".Name)") {
							if be.Op == token.EQL {
								return "absent"
							}
							return "present"
						}
					}
					if u, ok := unparen(e).(*ast.UnaryExpr); ok && u.Op == token.NOT {
						if call, ok := unparen(u.X).(*ast.CallExpr); ok && strings.HasPrefix(canon(call), mv+".Matches(") {
							return "nomatch"
						}
					}
					return ""
				}
				x.Atom = func(e ast.Expr, text string) string {
					if call, ok := unparen(e).(*ast.CallExpr); ok && strings.HasPrefix(canon(call), mv+".Matches(") {
						return "match"
					}
					return ""
				}
				n, cx, err := e9Table([]string{"absent", "present", "nomatch", "match"}, intRange(0, 1),
					func(env map[string]int64) bool { return env["absent"] != env["present"] && env["nomatch"] != env["match"] },
					func(env map[string]int64) (int64, error) { v, err := x.eval(skip.Cond, env); return b2i(v.b), err },
					func(env map[string]int64) int64 { return b2i(env["absent"] == 1 || env["match"] == 0) })
				c.Stats["assignments_evaluated"] += n
				reportE9(c, "request-matches-all-matchers", construct, p.Pos(skip.Pos()), cx, err, "a request is abandoned for a series on a condition other than: label absent or matcher does not match")
			}
			// after the matcher loop
			nAdd, badAdd := 0, ""
			ast.Inspect(reqLoop.Body, func(nd ast.Node) bool {
				call, ok := nd.(*ast.CallExpr)
				if !ok {
					return true
				}
				sel, ok := unparen(call.Fun).(*ast.SelectorExpr)
				if !ok || sel.Sel.Name != "Add" || canon(sel.X) != "intervals" {
					return true
				}
				nAdd++
				if call.Pos() < mLoop.End() {
					badAdd = "intervals are collected before all matchers of the request were tested"
				}
				// the added interval ranges over this request's Intervals
				okSrc := false
				for par := p.ParentOf(fn.Pkg, call); par != nil && par != ast.Node(reqLoop); par = p.ParentOf(fn.Pkg, par) {
					if rs, ok := par.(*ast.RangeStmt); ok && canon(rs.X) == canon(reqLoop.Value)+".Intervals" && len(call.Args) == 1 && rs.Value != nil && canon(call.Args[0]) == canon(rs.Value) {
						okSrc = true
					}
				}
				if !okSrc {
					badAdd = "the collected interval is not one of this request's intervals"
				}
				return true
			})
			if nAdd == 0 {
				badAdd = "intervals of matching requests are never collected"
			}
			c.Check(badAdd == "", "deletion-only-after-match", construct+"#intervals", p.Pos(reqLoop.Pos()), "intervals-before-match", badAdd)
			// whole series deletion: `continue <SeriesLoop>` after the matcher loop and only when the request has no intervals
			badWhole, nWhole := "", 0
			ast.Inspect(reqLoop.Body, func(nd ast.Node) bool {
				br, ok := nd.(*ast.BranchStmt)
				if !ok || br.Tok != token.CONTINUE || br.Label == nil {
					return true
				}
				// label of the outer series loop = not the request loop's label
				if ls, ok := p.ParentOf(fn.Pkg, reqLoop).(*ast.LabeledStmt); ok && ls.Label.Name == br.Label.Name {
					return true
				}
				nWhole++
				if br.Pos() < mLoop.End() {
					badWhole = "a series is deleted as a whole before all matchers of the request were tested"
				}
				okNoIntervals := false
				for _, g := range guardsOf(p, fn, br) {
					if !g.Pol && strings.ReplaceAll(canon(g.Cond), " ", "") == "len("+canon(reqLoop.Value)+".Intervals)>0" {
						okNoIntervals = true
					}
				}
				if !okNoIntervals {
					badWhole = "a series is deleted as a whole although the request names intervals"
				}
				return true
			})
			if nWhole == 0 {
				badWhole = "requests without intervals do not delete the series"
			}
			c.Check(badWhole == "", "deletion-only-after-match", construct+"#whole-series", p.Pos(reqLoop.Pos()), "whole-series-deletion", badWhole)
		}
	}

	if fn := p.Func(rel, "delGenericSeriesIterator", "next"); fn == nil {
		c.Incomplete("chunk-dropped-only-if-covered", rel+".(*delGenericSeriesIterator).next", "", "function not found")
	} else {
		info := fn.Info()
		construct := rel + ".(*delGenericSeriesIterator).next"
		// dropped chunk: `continue` directly in the chunk loop
		var chunkLoop *ast.ForStmt
		ast.Inspect(fn.Body(), func(nd ast.Node) bool {
			if f, ok := nd.(*ast.ForStmt); ok && f.Cond != nil && strings.HasSuffix(canon(f.Cond), ".chks.Next()") {
				chunkLoop = f
			}
			return true
		})
		if chunkLoop == nil {
			c.Incomplete("chunk-dropped-only-if-covered", construct, p.Pos(fn.Decl.Pos()), "chunk loop not found")
		} else {
			bad, n := "", 0
			for _, st := range chunkLoop.Body.List {
				is, ok := st.(*ast.IfStmt)
				if !ok {
					continue
				}
				drops := false
				for _, s2 := range is.Body.List {
					if br, ok := s2.(*ast.BranchStmt); ok && br.Tok == token.CONTINUE {
						drops = true
					}
				}
				if !drops {
					continue
				}
				n++
				okCond := false
				if call, ok := unparen(is.Cond).(*ast.CallExpr); ok && len(call.Args) == 1 && strings.HasSuffix(canon(call.Args[0]), ".intervals") {
					if sel, ok := unparen(call.Fun).(*ast.SelectorExpr); ok && sel.Sel.Name == "IsSubrange" {
						src := ""
						if is.Init != nil {
							if as, ok := is.Init.(*ast.AssignStmt); ok && len(as.Lhs) == 1 && canon(as.Lhs[0]) == canon(sel.X) {
								src = stmtText(p, as.Rhs[0])
							}
						}
						if src == "" {
							if d := singleDef(fn, info, objOf(info, sel.X)); d != nil {
								src = stmtText(p, d)
							}
						}
						if strings.Contains(src, "Mint:d.currChkMeta.MinTime") && strings.Contains(src, "Maxt:d.currChkMeta.MaxTime") {
							okCond = true
						}
					}
				}
				if !okCond {
					bad = "a chunk is dropped under `" + canon(is.Cond) + "`, not under IsSubrange(d.intervals) of its own [MinTime, MaxTime]"
				}
			}
			if n == 0 {
				bad = "fully covered chunks are never dropped"
			}
			c.Check(bad == "", "chunk-dropped-only-if-covered", construct, p.Pos(chunkLoop.Pos()), "chunk-drop-condition", bad)

			// applied intervals
			var scan *ast.RangeStmt
			ast.Inspect(chunkLoop.Body, func(nd ast.Node) bool {
				if rs, ok := nd.(*ast.RangeStmt); ok && strings.HasSuffix(canon(rs.X), ".intervals") && rs.Value != nil {
					scan = rs
				}
				return true
			})
			var add ast.Node
			if scan != nil {
				ast.Inspect(scan.Body, func(nd ast.Node) bool {
					if call, ok := nd.(*ast.CallExpr); ok {
						if sel, ok := unparen(call.Fun).(*ast.SelectorExpr); ok && sel.Sel.Name == "Add" && len(call.Args) == 1 && canon(call.Args[0]) == canon(scan.Value) {
							add = call
						}
					}
					return true
				})
			}
			ob := construct + "#applied-intervals"
			if scan == nil || add == nil {
				c.Incomplete("every-overlapping-interval-applied", ob, p.Pos(chunkLoop.Pos()), "the scan that selects the intervals applied to a chunk was not found")
			} else {
				iv := canon(scan.Value)
				// guards between the scan's body start and the Add (early exits included)
				var gs []guardCond
				for _, g := range guardsOf(p, fn, add) {
					if g.Cond.Pos() >= scan.Body.Pos() && g.Cond.End() <= scan.Body.End() {
						gs = append(gs, g)
					}
				}
				x := newE9(p, fn, func(e ast.Expr, text string) string {
					t := strings.ReplaceAll(text, " ", "")
					switch {
					case t == iv+".Mint":
						return "imin"
					case t == iv+".Maxt":
						return "imax"
					case strings.HasSuffix(t, ".currChkMeta.MinTime"):
						return "cmin"
					case strings.HasSuffix(t, ".currChkMeta.MaxTime"):
						return "cmax"
					case strings.HasSuffix(t, ".OverlapsClosedInterval("+iv+".Mint,"+iv+".Maxt)") && strings.Contains(t, "currChkMeta"):
						return "ov"
					}
					return ""
				})
				n, cx, err := e9Table([]string{"imin", "imax", "cmin", "cmax", "ov"}, intRange(0, 3),
					func(env map[string]int64) bool {
						if env["ov"] > 1 || env["imin"] > env["imax"] || env["cmin"] > env["cmax"] {
							return false
						}
						return (env["ov"] == 1) == (env["cmin"] <= env["imax"] && env["imin"] <= env["cmax"])
					},
					func(env map[string]int64) (int64, error) { b, err := x.evalGuards(gs, env); return b2i(b), err },
					func(env map[string]int64) int64 { return b2i(env["cmin"] <= env["imax"] && env["imin"] <= env["cmax"]) })
				c.Stats["assignments_evaluated"] += n
				reportE9(c, "every-overlapping-interval-applied", ob, p.Pos(scan.Pos()), cx, err,
					"an interval that overlaps the chunk (closed ranges) is not applied to it, or a non-overlapping one is: samples inside a requested interval would survive the rewrite")
			}
		}
	}

	if fn := p.Func(rel, "", "intersection"); fn == nil {
		c.Incomplete("intersection-formula", rel+".intersection", "", "function not found")
	} else {
		var loop *ast.RangeStmt
		for _, st := range fn.Decl.Body.List {
			if rs, ok := st.(*ast.RangeStmt); ok {
				loop = rs
			}
		}
		if loop == nil || loop.Value == nil || len(fn.Decl.Type.Params.List) < 1 || len(fn.Decl.Type.Params.List[0].Names) < 1 {
			c.Incomplete("intersection-formula", rel+".intersection", p.Pos(fn.Decl.Pos()), "loop over the ranges not found")
		} else {
			iv := fn.Decl.Type.Params.List[0].Names[0].Name
			rv := canon(loop.Value)
			var skip *ast.IfStmt
			for _, st := range loop.Body.List {
				if is, ok := st.(*ast.IfStmt); ok && len(is.Body.List) == 1 {
					if br, ok := is.Body.List[0].(*ast.BranchStmt); ok && br.Tok == token.CONTINUE {
						skip = is
					}
				}
			}
			if skip == nil {
				c.Bad("intersection-formula", rel+".intersection#overlap", p.Pos(loop.Pos()), "no-overlap-test", "ranges that do not overlap the interval are not skipped")
			} else {
				x := newE9(p, fn, func(e ast.Expr, text string) string {
					switch strings.ReplaceAll(text, " ", "") {
					case rv + ".Mint":
						return "rmin"
					case rv + ".Maxt":
						return "rmax"
					case iv + ".Mint":
						return "imin"
					case iv + ".Maxt":
						return "imax"
					}
					return ""
				})
				n, cx, err := e9Table([]string{"rmin", "rmax", "imin", "imax"}, intRange(0, 3),
					func(env map[string]int64) bool { return env["rmin"] <= env["rmax"] && env["imin"] <= env["imax"] },
					func(env map[string]int64) (int64, error) { v, err := x.eval(skip.Cond, env); return b2i(v.b), err },
					func(env map[string]int64) int64 { return b2i(!(env["rmin"] <= env["imax"] && env["imin"] <= env["rmax"])) })
				c.Stats["assignments_evaluated"] += n
				reportE9(c, "intersection-formula", rel+".intersection#overlap", p.Pos(skip.Pos()), cx, err, "a range is skipped although it overlaps the interval (closed ranges), or kept although it does not")
			}
			// clamping
			clamps := map[string]bool{}
			for _, st := range loop.Body.List {
				if is, ok := st.(*ast.IfStmt); ok && len(is.Body.List) == 1 && is.Else == nil {
					clamps[stmtText(p, is.Cond)+"→"+stmtText(p, is.Body.List[0])] = true
				}
			}
			okClamp := false
			for k := range clamps {
				if strings.HasSuffix(k, ".Mint<"+iv+".Mint→intersection.Mint="+iv+".Mint") {
					for k2 := range clamps {
						if strings.HasSuffix(k2, ".Maxt>"+iv+".Maxt→intersection.Maxt="+iv+".Maxt") {
							okClamp = true
						}
					}
				}
			}
			c.Check(okClamp, "intersection-formula", rel+".intersection#clamp", p.Pos(loop.Pos()), "clamp",
				fmt.Sprintf("the kept range must be clamped to the interval: start = max of the starts, end = min of the ends (found %d conditional assignments)", len(clamps)))
		}
	}
	_ = types.Universe
}
