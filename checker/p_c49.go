package main

import (
	"fmt"
	"go/ast"
	"go/types"
	"strings"
)

func init() {
	register(&Property{
		ID:    "C49",
		Title: "Memcached key placement is consistent",
		Explain: "(1) Sibling agreement: PickServer and PickServerForKeys choose through the same function pickServerWithJumpHash(s.addrs, key), their single-server shortcuts both return s.addrs[0], both report ErrNoServers for an empty list and both read addrs under the read lock; SetServers publishes addrs under the write lock. " +
			"(2) Order independence: the addresses published by SetServers are built by iterating a slice that went through natsort.Sort on every path (event typestate), that slice is a private copy of the arguments, and position i of the result is element i of that slice. " +
			"(3) Purity: nothing reachable from the pickers reads the clock, the environment or the global random source; the hash input of pickServerWithJumpHash is the key alone. " +
			"The jump-hash arithmetic itself is not checked.",
		Assume: []string{"'growing the list only moves keys to the new server' additionally needs the new server to sort last — a property of names, not of code"},
		Run:    runC49,
	})
}

// ambientCall returns a description of the first call reachable from fn that reads ambient state.
func ambientCall(p *Prog, fn *Fn) (string, string, int) {
	reach := reachableFuncs(p, fn)
	for _, rf := range reach {
		info := rf.Info()
		bad, pos := "", ""
		ast.Inspect(rf.Body(), func(n ast.Node) bool {
			call, ok := n.(*ast.CallExpr)
			if !ok || bad != "" {
				return true
			}
			f := calleeOf(info, call)
			if f == nil || f.Pkg() == nil {
				return true
			}
			sig, _ := f.Type().(*types.Signature)
			pkgLevel := sig != nil && sig.Recv() == nil
			full := f.Pkg().Path() + "." + f.Name()
			switch {
			case full == "time.Now" || full == "time.Since" || full == "os.Getenv" || full == "os.Hostname" || full == "os.Getpid":
				bad, pos = rf.Name+" calls "+full, p.Pos(call.Pos())
			case pkgLevel && strings.HasPrefix(f.Pkg().Path(), "math/rand") && !strings.HasPrefix(f.Name(), "New"):
				bad, pos = rf.Name+" draws from the process-global random source ("+full+")", p.Pos(call.Pos())
			}
			return true
		})
		if bad != "" {
			return bad, pos, len(reach)
		}
	}
	return "", "", len(reach)
}

func runC49(c *Ctx) {
	c.Rule("pickers-agree", "single and batch lookups choose the same way, under the lock", 3)
	c.Rule("servers-naturally-sorted", "published addresses follow the naturally sorted copy on every path", 1)
	c.Rule("picker-pure", "placement depends on the key and the server list only", 3)
	p := c.Load("pkg/cacheutil")
	if p == nil {
		return
	}
	const rel = "pkg/cacheutil"
	const recv = "MemcachedJumpHashSelector"

	type pick struct {
		hashCalls []string
		shortcut  string
		noServers bool
		locked    bool
	}
	res := map[string]*pick{}
	for _, name := range []string{"PickServer", "PickServerForKeys"} {
		fn := p.Func(rel, recv, name)
		construct := fmt.Sprintf("%s.(*%s).%s", rel, recv, name)
		if fn == nil {
			c.Incomplete("pickers-agree", construct, "", "function not found")
			continue
		}
		info := fn.Info()
		pk := &pick{}
		res[name] = pk
		if len(fn.Decl.Body.List) >= 2 {
			a, b := stmtText(p, fn.Decl.Body.List[0]), stmtText(p, fn.Decl.Body.List[1])
			pk.locked = a == "s.mu.RLock()" && b == "defers.mu.RUnlock()"
		}
		ast.Inspect(fn.Body(), func(nd ast.Node) bool {
			switch v := nd.(type) {
			case *ast.CallExpr:
				if f := calleeOf(info, v); f != nil && f.Name() == "pickServerWithJumpHash" && len(v.Args) == 2 {
					pk.hashCalls = append(pk.hashCalls, canon(v.Args[0])+"|"+types.TypeString(info.TypeOf(v.Args[1]), nil))
				}
			case *ast.IfStmt:
				t := canon(v.Cond)
				if t == "len(s.addrs)==1" {
					ast.Inspect(v.Body, func(x ast.Node) bool {
						if ix, ok := x.(*ast.IndexExpr); ok && canon(ix.X) == "s.addrs" {
							pk.shortcut = canon(ix)
						}
						return true
					})
				}
				if t == "len(s.addrs)==0" || t == "len(s.addrs)<=0" {
					ast.Inspect(v.Body, func(x ast.Node) bool {
						if ret, ok := x.(*ast.ReturnStmt); ok && len(ret.Results) == 2 && strings.HasSuffix(canon(ret.Results[1]), "ErrNoServers") {
							pk.noServers = true
						}
						return true
					})
				}
			}
			return true
		})
		bad := ""
		switch {
		case !pk.locked:
			bad = "addrs is not read under s.mu.RLock() with a deferred RUnlock"
		case len(pk.hashCalls) != 1 || pk.hashCalls[0] != "s.addrs|string":
			bad = fmt.Sprintf("the server is not chosen by exactly one pickServerWithJumpHash(s.addrs, key) (%v)", pk.hashCalls)
		case pk.shortcut != "s.addrs[0]":
			bad = "the single-server shortcut does not return s.addrs[0]"
		case !pk.noServers:
			bad = "an empty server list is not reported as ErrNoServers"
		}
		c.Check(bad == "", "pickers-agree", construct, p.Pos(fn.Decl.Pos()), "picker-shape", bad)
	}
	set := p.Func(rel, recv, "SetServers")
	if set == nil {
		c.Incomplete("pickers-agree", fmt.Sprintf("%s.(*%s).SetServers", rel, recv), "", "function not found")
		return
	}
	info := set.Info()
	construct := fmt.Sprintf("%s.(*%s).SetServers", rel, recv)
	// publication under the write lock
	var publish *ast.AssignStmt
	lockPos, pubOK := ast.Node(nil), false
	for _, st := range set.Decl.Body.List {
		if stmtText(p, st) == "s.mu.Lock()" {
			lockPos = st
		}
		if as, ok := st.(*ast.AssignStmt); ok && len(as.Lhs) == 1 && canon(as.Lhs[0]) == "s.addrs" {
			publish = as
			pubOK = lockPos != nil
		}
	}
	c.Check(publish != nil && pubOK, "pickers-agree", construct+"#publish", p.Pos(set.Decl.Pos()), "publish-unlocked", "the new address list must be assigned to s.addrs after s.mu.Lock()")

	// (2) natural order
	if publish == nil {
		c.Incomplete("servers-naturally-sorted", construct, p.Pos(set.Decl.Pos()), "publication of addrs not found")
	} else {
		dst := objOf(info, publish.Rhs[0])
		// the loop that fills dst[i] from ranging a slice
		var fill *ast.RangeStmt
		ast.Inspect(set.Body(), func(nd ast.Node) bool {
			rs, ok := nd.(*ast.RangeStmt)
			if !ok || rs.Key == nil {
				return true
			}
			ast.Inspect(rs.Body, func(x ast.Node) bool {
				if as, ok := x.(*ast.AssignStmt); ok {
					for _, lh := range as.Lhs {
						if ix, ok := unparen(lh).(*ast.IndexExpr); ok && objOf(info, ix.X) == dst && dst != nil && objOf(info, ix.Index) == objOf(info, rs.Key) {
							fill = rs
						}
					}
				}
				return true
			})
			return true
		})
		if fill == nil {
			c.Bad("servers-naturally-sorted", construct, p.Pos(set.Decl.Pos()), "fill-loop", "the published list is not filled position by position from one slice of server names")
		} else {
			src := objOf(info, fill.X)
			var param types.Object
			if len(set.Decl.Type.Params.List) == 1 && len(set.Decl.Type.Params.List[0].Names) == 1 {
				param = info.Defs[set.Decl.Type.Params.List[0].Names[0]]
			}
			isSort := func(i *types.Info, call *ast.CallExpr) bool {
				f := calleeOf(i, call)
				return f != nil && f.Pkg() != nil && strings.HasSuffix(f.Pkg().Path(), "natsort") && f.Name() == "Sort" && len(call.Args) == 1 && objOf(i, call.Args[0]) == src
			}
			e := newE3(p, set, []Ev{{Name: "natsort", Match: isSort}})
			b, _ := e.Before(fill.X, "natsort")
			bad := ""
			switch {
			case src == nil:
				bad = "the names are not iterated from a local slice"
			case src == param:
				bad = "the addresses follow the order in which the servers were passed in"
			case b != eOK:
				bad = "the slice of names that determines the address order is naturally sorted on some paths only (" + evBitsString(b) + "): for the other inputs the key→server mapping depends on the order of the list"
			default:
				// src is a private copy and not re-pointed at the arguments afterwards
				nAssign := 0
				ast.Inspect(set.Body(), func(nd ast.Node) bool {
					if as, ok := nd.(*ast.AssignStmt); ok {
						for i, lh := range as.Lhs {
							if objOf(info, lh) == src {
								nAssign++
								if i < len(as.Rhs) {
									r := unparen(as.Rhs[i])
									if call, ok := r.(*ast.CallExpr); !ok || canon(call.Fun) != "make" {
										if objOf(info, r) == param || (func() bool { sl, ok := r.(*ast.SliceExpr); return ok && objOf(info, sl.X) == param })() {
											bad = "the slice that is sorted is the caller's argument itself on some path"
										}
									}
								}
							}
						}
					}
					return true
				})
				if nAssign == 0 {
					bad = "no definition of the sorted slice found"
				}
			}
			c.Check(bad == "", "servers-naturally-sorted", construct, p.Pos(fill.Pos()), "server-order", bad)
		}
	}

	// (3) purity
	for _, name := range []string{"PickServer", "PickServerForKeys"} {
		fn := p.Func(rel, recv, name)
		if fn == nil {
			continue
		}
		bad, pos, n := ambientCall(p, fn)
		c.Stats["functions_reached"] += n
		if pos == "" {
			pos = p.Pos(fn.Decl.Pos())
		}
		c.Check(bad == "", "picker-pure", fmt.Sprintf("%s.(*%s).%s", rel, recv, name), pos, "ambient-state-in-placement", bad)
	}
	if fn := p.Func(rel, "", "pickServerWithJumpHash"); fn == nil {
		c.Incomplete("picker-pure", rel+".pickServerWithJumpHash", "", "function not found")
	} else {
		finfo := fn.Info()
		bad, n := "", 0
		ast.Inspect(fn.Body(), func(nd ast.Node) bool {
			call, ok := nd.(*ast.CallExpr)
			if !ok {
				return true
			}
			f := calleeOf(finfo, call)
			if f == nil || f.Pkg() == nil || !strings.Contains(f.Pkg().Path(), "xxhash") {
				return true
			}
			n++
			if len(call.Args) != 1 || canon(call.Args[0]) != "key" {
				bad = "the hash input is " + canon(call) + ", not the key alone"
			}
			return true
		})
		if n == 0 {
			bad = "no hash of the key found"
		}
		// index into addrs with the jump hash over len(addrs)
		okIdx := false
		ast.Inspect(fn.Body(), func(nd ast.Node) bool {
			if call, ok := nd.(*ast.CallExpr); ok {
				if f := calleeOf(finfo, call); f != nil && f.Name() == "jumpHash" && len(call.Args) == 2 && canon(call.Args[1]) == "len(addrs)" {
					okIdx = true
				}
			}
			return true
		})
		if bad == "" && !okIdx {
			bad = "the bucket count given to the jump hash is not len(addrs)"
		}
		c.Check(bad == "", "picker-pure", rel+".pickServerWithJumpHash", p.Pos(fn.Decl.Pos()), "hash-input", bad)
	}
}
