package main

// Rules added after the second round of seeded changes (batch C32–C40). Each is attached to its
// property with addRules and reuses the property's loaded program.

import (
	"fmt"
	"go/ast"
	"go/token"
	"go/types"
	"strings"
)

func init() {
	addRules("C37", rulesC37Seek)
	addRules("C40", rulesC40Lists)
	addRules("C38", rulesC38TypeFlag)
	addRules("C35", rulesC35Labels)
	addRules("C32", rulesC32Marks)
	addRules("C39", rulesC39WellFormed)
	addRules("C34", rulesC34LoadBeforeDrop)
}

// C34: within one store-gateway sync the replacement of compacted blocks is loaded before the sources are
// dropped: every removeBlock in SyncBlocks is reached only after the workers that add the new blocks have
// been joined. Dropping first leaves a window (or, if loading fails, a whole sync period) in which neither
// the sources nor their replacement are served.
func rulesC34LoadBeforeDrop(c *Ctx) {
	const rel, rule = "pkg/store", "new-blocks-loaded-before-old-dropped"
	c.Rule(rule, "SyncBlocks joins the block-loading workers before it removes any block", 1)
	p := c.Load("pkg/store")
	if p == nil {
		return
	}
	fn := p.Func(rel, "BucketStore", "SyncBlocks")
	if fn == nil {
		c.Incomplete(rule, rel+".(*BucketStore).SyncBlocks", "", "function not found")
		return
	}
	info := fn.Info()
	// the workers add blocks
	adds := false
	for _, lit := range p.Lits(fn) {
		ast.Inspect(lit.Body(), func(n ast.Node) bool {
			if call, ok := n.(*ast.CallExpr); ok {
				if f := calleeOf(lit.Info(), call); f != nil && f.Name() == "addBlock" {
					adds = true
				}
			}
			return true
		})
	}
	e := newE3(p, fn, []Ev{
		{Name: "join", Match: func(i *types.Info, call *ast.CallExpr) bool {
			sel, ok := unparen(call.Fun).(*ast.SelectorExpr)
			return ok && sel.Sel.Name == "Wait" && strings.HasSuffix(shortType(i.TypeOf(sel.X)), "WaitGroup")
		}},
	})
	n := 0
	inspectNoLit(fn.Body(), func(nd ast.Node) bool {
		call, ok := nd.(*ast.CallExpr)
		if !ok {
			return true
		}
		if f := calleeOf(info, call); f == nil || f.Name() != "removeBlock" {
			return true
		}
		n++
		b, _ := e.Before(call, "join")
		c.Check(adds && b != 0 && b&eNo == 0, rule, rel+".(*BucketStore).SyncBlocks#removeBlock", p.Pos(call.Pos()), "old-blocks-dropped-before-new-loaded",
			"a block that left the view is removed on a path where the workers loading the new blocks have not been joined "+evBitsString(b)+": while (or if) the compacted replacement is still not loaded, the gateway serves neither it nor its sources")
		return true
	})
	if n == 0 {
		c.Incomplete(rule, rel+".(*BucketStore).SyncBlocks", p.Pos(fn.Decl.Pos()), "no removeBlock call found")
	}
}

// C37: reading the counter aggregate applies the reset correction sample by sample; Seek must advance
// through the iterator's own Next and never let an underlying chunk iterator skip ahead (a downsampled
// counter chunk ends with a duplicate-timestamp sample carrying the true last raw value, which a chunk-level
// Seek runs over).
func rulesC37Seek(c *Ctx) {
	const rel, rule = "pkg/compact/downsample", "seek-only-through-next"
	c.Rule(rule, "ApplyCounterResetsSeriesIterator.Seek advances only through its own Next", 1)
	p := c.Load("pkg/compact/downsample")
	if p == nil {
		return
	}
	fn := p.Func(rel, "ApplyCounterResetsSeriesIterator", "Seek")
	if fn == nil {
		c.Incomplete(rule, rel+".(*ApplyCounterResetsSeriesIterator).Seek", "", "function not found")
		return
	}
	info := fn.Info()
	recv := recvObj(fn)
	usesNext, bad, where := false, "", p.Pos(fn.Decl.Pos())
	ast.Inspect(fn.Body(), func(n ast.Node) bool {
		call, ok := n.(*ast.CallExpr)
		if !ok {
			return true
		}
		sel, ok := unparen(call.Fun).(*ast.SelectorExpr)
		if !ok {
			return true
		}
		if sel.Sel.Name == "Next" && objOf(info, sel.X) == recv {
			usesNext = true
		}
		if sel.Sel.Name == "Seek" && objOf(info, sel.X) != recv {
			bad, where = "Seek lets "+canon(sel.X)+" skip ahead on its own ("+canon(call)+")", p.Pos(call.Pos())
		}
		return true
	})
	if bad == "" && !usesNext {
		bad = "Seek does not advance through the iterator's own Next"
	}
	c.Check(bad == "", rule, rel+".(*ApplyCounterResetsSeriesIterator).Seek", where, "underlying-seek-used",
		bad+": samples skipped inside a chunk are not accounted for, so a counter reset (or the true last raw value at the end of the chunk) between the old and the new position is missed and every later value is off")
}

// C40: the five aggregate iterator lists are grown by append; each must own its backing array. A list that is
// a two-index reslice of a shared buffer grows into its neighbour's elements.
func rulesC40Lists(c *Ctx) {
	const rel, rule = "pkg/dedup", "aggregate-lists-independent"
	c.Rule(rule, "aggrIterators[i] is only assigned nil, a fresh slice, a capacity-limited reslice or an append to itself", 1)
	pats := []string{"pkg/dedup", "pkg/query", "pkg/compact"}
	if c.Tier == "thorough" {
		pats = []string{"pkg/...", "cmd/..."}
	}
	p := c.Load(pats...)
	if p == nil {
		return
	}
	n := 0
	for _, fn := range p.AllFuncs(true) {
		if relPkg(fn.Pkg.PkgPath) != rel {
			continue
		}
		ast.Inspect(fn.Body(), func(nd ast.Node) bool {
			as, ok := nd.(*ast.AssignStmt)
			if !ok || len(as.Lhs) != len(as.Rhs) {
				return true
			}
			for i, l := range as.Lhs {
				ix, ok := unparen(l).(*ast.IndexExpr)
				if !ok || !strings.HasSuffix(canon(ix.X), ".aggrIterators") {
					continue
				}
				n++
				r := unparen(as.Rhs[i])
				ok2 := false
				switch v := r.(type) {
				case *ast.Ident:
					ok2 = v.Name == "nil"
				case *ast.CallExpr:
					if id, isId := v.Fun.(*ast.Ident); isId {
						ok2 = id.Name == "make" || (id.Name == "append" && len(v.Args) > 0 && canon(v.Args[0]) == canon(l))
					}
				case *ast.SliceExpr:
					ok2 = v.Slice3 || canon(v.X) == canon(l) // s[:0] of itself keeps ownership
				}
				c.Check(ok2, rule, rel+"."+fn.Name+"#"+canon(l), p.Pos(as.Pos()), "aggregate-list-shares-backing-array",
					"`"+stmtText(p, as)+"`: the list starts inside a buffer it shares with the other aggregates and has room beyond its own region; the append that outgrows the region overwrites the first iterator of the next aggregate, which then misses the samples of that chunk")
			}
			return true
		})
	}
	if n == 0 {
		c.Incomplete(rule, rel, "", "no assignment to aggrIterators[...] found")
	}
}

// C38: Downsample cuts the run of aggregated chunks whenever the chunk type (float / histogram) changes; the
// flag that remembers the previous chunk's type must be set to the current chunk's type on every path that
// found them different — otherwise the next change back is not seen and a mixed group is re-aggregated as one
// type, silently dropping the other type's samples.
func rulesC38TypeFlag(c *Ctx) {
	const rel, rule = "pkg/compact/downsample", "type-change-flag-tracks-current-chunk"
	c.Rule(rule, "whenever previous type != current type, the flag is updated to the current type", 1)
	p := c.Load("pkg/compact/downsample")
	if p == nil {
		return
	}
	fn := p.Func(rel, "", "Downsample")
	if fn == nil {
		c.Incomplete(rule, rel+".Downsample", "", "function not found")
		return
	}
	info := fn.Info()
	isTypeOf := func(e ast.Expr) bool { // isHistogramAggrChunk(x) directly or through a local
		e = unparen(e)
		if id, ok := e.(*ast.Ident); ok {
			if o := objOf(info, id); o != nil {
				if d := singleDef(fn, info, o); d != nil {
					e = unparen(d)
				}
			}
		}
		call, ok := e.(*ast.CallExpr)
		if !ok {
			return false
		}
		f := calleeOf(info, call)
		return f != nil && f.Name() == "isHistogramAggrChunk"
	}
	found := 0
	ast.Inspect(fn.Body(), func(nd ast.Node) bool {
		loop, ok := nd.(*ast.RangeStmt)
		if !ok {
			return true
		}
		// the flag: the operand compared (!=) with the current chunk's type somewhere in this loop's conditions
		var flag types.Object
		for _, st := range loop.Body.List {
			ifs, ok := st.(*ast.IfStmt)
			if !ok {
				continue
			}
			ast.Inspect(ifs.Cond, func(x ast.Node) bool {
				be, ok := x.(*ast.BinaryExpr)
				if !ok || be.Op != token.NEQ {
					return true
				}
				switch {
				case isTypeOf(be.Y) && !isTypeOf(be.X):
					flag = objOf(info, be.X)
				case isTypeOf(be.X) && !isTypeOf(be.Y):
					flag = objOf(info, be.Y)
				}
				return true
			})
		}
		if flag == nil {
			return true
		}
		found++
		paths, err := enumPaths(loop.Body.List)
		if err != nil {
			c.Incomplete(rule, rel+".Downsample#aggr-loop", p.Pos(loop.Pos()), err.Error())
			return false
		}
		bad := ""
		for _, pth := range paths {
			differs := false
			for _, cnd := range pth.Conds {
				if be, ok := unparen(cnd.Atom).(*ast.BinaryExpr); ok && be.Op == token.NEQ && cnd.Pol &&
					((objOf(info, be.X) == flag && isTypeOf(be.Y)) || (objOf(info, be.Y) == flag && isTypeOf(be.X))) {
					differs = true
				}
			}
			if !differs || pth.End == "return" {
				continue
			}
			updated := false
			for _, a := range pth.Acts {
				if as, ok := a.(*ast.AssignStmt); ok && len(as.Lhs) == 1 && len(as.Rhs) == 1 && objOf(info, as.Lhs[0]) == flag && isTypeOf(as.Rhs[0]) {
					updated = true
				}
			}
			if !updated {
				bad = "on a path where the previous chunk's type (" + flag.Name() + ") differs from the current chunk's, " + flag.Name() + " is not set to the current type"
			}
		}
		c.Check(bad == "", rule, rel+".Downsample#aggr-loop", p.Pos(loop.Pos()), "type-flag-stale",
			bad+": the flag keeps an older type, the change back to it goes unnoticed, and a mixed float/histogram group reaches downsampleAggr, which keeps one type and drops the other's samples")
		return false
	})
	if found == 0 {
		c.Incomplete(rule, rel+".Downsample#aggr-loop", p.Pos(fn.Decl.Pos()), "no loop comparing a remembered chunk type with isHistogramAggrChunk(current) found")
	}
}

// C35: a shipped block carries the external labels that are current at upload time: on every path of
// Shipper.upload the labels callback has been called (by upload itself or by a helper that calls it
// unconditionally) before the meta file is written. A value cached across uploads is stale as soon as the
// callback's answer changes.
func rulesC35Labels(c *Ctx) {
	const rel, rule = "pkg/shipper", "labels-read-at-upload-time"
	c.Rule(rule, "the labels callback is called on every path before the meta file of the upload is written", 1)
	p := c.Load("pkg/shipper", "pkg/block")
	if p == nil {
		return
	}
	fn := p.Func(rel, "Shipper", "upload")
	if fn == nil {
		c.Incomplete(rule, rel+".(*Shipper).upload", "", "function not found")
		return
	}
	isLabelsCall := func(i *types.Info, call *ast.CallExpr) bool {
		sel, ok := unparen(call.Fun).(*ast.SelectorExpr)
		if !ok {
			return false
		}
		v, ok := i.Uses[sel.Sel].(*types.Var)
		if !ok || !v.IsField() {
			return false
		}
		sig, ok := v.Type().Underlying().(*types.Signature)
		return ok && sig.Results().Len() == 1 && strings.HasSuffix(shortType(sig.Results().At(0).Type()), "labels.Labels")
	}
	var always func(f *Fn, depth int) bool
	always = func(f *Fn, depth int) bool {
		e := newE3(p, f, []Ev{{Name: "labels", Match: func(i *types.Info, call *ast.CallExpr) bool {
			if isLabelsCall(i, call) {
				return true
			}
			if depth < 2 {
				if callee := calleeOf(i, call); callee != nil && callee.Pkg() == f.Pkg.Types {
					if cf := p.findFuncDecl(callee); cf != nil && cf.Obj != f.Obj {
						return always(cf, depth+1)
					}
				}
			}
			return false
		}}})
		n := 0
		for _, ex := range e.Exits() {
			if ex.Panic {
				continue
			}
			n++
			if ex.Bits["labels"]&eNo != 0 {
				return false
			}
		}
		return n > 0
	}
	info := fn.Info()
	e := newE3(p, fn, []Ev{{Name: "labels", Match: func(i *types.Info, call *ast.CallExpr) bool {
		if isLabelsCall(i, call) {
			return true
		}
		if callee := calleeOf(i, call); callee != nil && callee.Pkg() == fn.Pkg.Types {
			if cf := p.findFuncDecl(callee); cf != nil && cf.Obj != fn.Obj {
				return always(cf, 1)
			}
		}
		return false
	}}})
	nW := 0
	ast.Inspect(fn.Body(), func(nd ast.Node) bool {
		call, ok := nd.(*ast.CallExpr)
		if !ok {
			return true
		}
		if f := calleeOf(info, call); f == nil || f.Name() != "WriteToDir" {
			return true
		}
		nW++
		b, _ := e.Before(call, "labels")
		c.Check(b != 0 && b&eNo == 0, rule, rel+".(*Shipper).upload#meta-write", p.Pos(call.Pos()), "labels-not-read-fresh",
			"the meta file is written on a path where the labels callback has not been called in this upload "+evBitsString(b)+": the labels stamped on the block come from an earlier call and are stale once the callback's answer changes")
		return true
	})
	if nW == 0 {
		c.Incomplete(rule, rel+".(*Shipper).upload#meta-write", p.Pos(fn.Decl.Pos()), "no WriteToDir call found")
	}
}

// C32: the age test of the cleaner is applied to the deletion mark the filter reports NOW. Every mark handed
// to the deleting workers comes from this run's DeletionMarkBlocks(); a mark remembered from an earlier run may
// have been replaced by a younger one.
func rulesC32Marks(c *Ctx) {
	const rel, rule = "pkg/compact", "deleted-marks-come-from-current-filter-state"
	c.Rule(rule, "every deletion mark sent to the workers ranges over this run's DeletionMarkBlocks()", 1)
	p := c.Load("pkg/...", "cmd/...")
	if p == nil {
		return
	}
	fn := p.Func(rel, "BlocksCleaner", "DeleteMarkedBlocks")
	if fn == nil {
		c.Incomplete(rule, rel+".(*BlocksCleaner).DeleteMarkedBlocks", "", "function not found")
		return
	}
	info := fn.Info()
	n := 0
	inspectNoLit(fn.Body(), func(nd ast.Node) bool {
		send, ok := nd.(*ast.SendStmt)
		if !ok {
			return true
		}
		if !strings.HasSuffix(strings.TrimPrefix(shortType(info.TypeOf(send.Value)), "*"), "metadata.DeletionMark") {
			return true
		}
		n++
		prov := fT{K: fAtom, Src: send.Value, Info: info, Fn: fn, P: p}.Provenance()
		c.Check(strings.Contains(prov, ".DeletionMarkBlocks()"), rule, fmt.Sprintf("%s.(*BlocksCleaner).DeleteMarkedBlocks#send[%d]", rel, n-1), p.Pos(send.Pos()), "mark-not-from-current-filter",
			"the mark handed to the deleting workers comes from "+prov+", not from this run's DeletionMarkBlocks(): its age says nothing about the block's current mark, so a block whose mark was replaced by a younger one is deleted before the delay has passed")
		// and no mark of the current state is skipped in favour of a remembered one
		for par := p.ParentOf(fn.Pkg, send); par != nil; par = p.ParentOf(fn.Pkg, par) {
			if loop, ok := par.(*ast.RangeStmt); ok {
				ast.Inspect(loop.Body, func(x ast.Node) bool {
					if b, ok := x.(*ast.BranchStmt); ok && b.Tok == token.CONTINUE {
						c.Bad(rule, fmt.Sprintf("%s.(*BlocksCleaner).DeleteMarkedBlocks#send[%d]#skip", rel, n-1), p.Pos(b.Pos()), "current-mark-skipped",
							"a mark reported by the filter is skipped before it reaches the workers")
					}
					return true
				})
				break
			}
		}
		return true
	})
	if n == 0 {
		c.Incomplete(rule, rel+".(*BlocksCleaner).DeleteMarkedBlocks", p.Pos(fn.Decl.Pos()), "no send of a deletion mark found")
	}
}

// C39: AggrChunk.Get reports an error only for a malformed chunk. At entry i of the scan a well-formed
// buffer holds this entry (its length varint, and 1+l bytes if l > 0) and at least one byte for each of the
// remaining entries; for every such buffer no error test of the loop may fire — an absent aggregate must come
// out as ErrAggrNotExist, not as "invalid size".
func rulesC39WellFormed(c *Ctx) {
	const rel, rule = "pkg/compact/downsample", "no-size-error-on-well-formed-chunk"
	c.Rule(rule, "no error test of AggrChunk.Get fires on a well-formed buffer", 1)
	p := c.Load("pkg/compact/downsample", "pkg/dedup")
	if p == nil {
		return
	}
	fn := p.Func(rel, "AggrChunk", "Get")
	if fn == nil {
		c.Incomplete(rule, rel+".(AggrChunk).Get", "", "function not found")
		return
	}
	info := fn.Info()
	var loop *ast.ForStmt
	for _, st := range fn.Body().List {
		if f, ok := st.(*ast.ForStmt); ok {
			loop = f
		}
	}
	if loop == nil || loop.Init == nil {
		c.Incomplete(rule, rel+".(AggrChunk).Get", p.Pos(fn.Decl.Pos()), "scan loop not found")
		return
	}
	// names by role: loop counter; (l, n) := binary.Uvarint(buf)
	var iObj, lObj, nObj, bufObj types.Object
	if as, ok := loop.Init.(*ast.AssignStmt); ok && len(as.Lhs) == 1 {
		iObj = objOf(info, as.Lhs[0])
	}
	ast.Inspect(loop.Body, func(nd ast.Node) bool {
		as, ok := nd.(*ast.AssignStmt)
		if !ok || len(as.Lhs) != 2 || len(as.Rhs) != 1 {
			return true
		}
		if call, ok := unparen(as.Rhs[0]).(*ast.CallExpr); ok && len(call.Args) == 1 {
			if f := calleeOf(info, call); f != nil && f.Name() == "Uvarint" {
				lObj, nObj, bufObj = objOf(info, as.Lhs[0]), objOf(info, as.Lhs[1]), objOf(info, call.Args[0])
			}
		}
		return true
	})
	if iObj == nil || lObj == nil || nObj == nil || bufObj == nil {
		c.Incomplete(rule, rel+".(AggrChunk).Get", p.Pos(loop.Pos()), "loop counter / Uvarint results not recognised")
		return
	}
	x := newE9(p, fn, func(e ast.Expr, text string) string {
		e = unparen(e)
		if id, ok := e.(*ast.Ident); ok {
			switch objOf(info, id) {
			case iObj:
				return "i"
			case lObj:
				return "l"
			case nObj:
				return "n"
			}
		}
		if call, ok := e.(*ast.CallExpr); ok && len(call.Args) == 1 && canon(call.Fun) == "len" {
			a := unparen(call.Args[0])
			if objOf(info, a) == bufObj {
				return "lenb"
			}
			if sl, ok := a.(*ast.SliceExpr); ok && objOf(info, sl.X) == bufObj && sl.High == nil && sl.Low != nil && objOf(info, sl.Low) == nObj {
				return "rest"
			}
		}
		return ""
	})
	nTests := 0
	for _, st := range loop.Body.List {
		ifs, ok := st.(*ast.IfStmt)
		if !ok {
			continue
		}
		isErr := false
		for _, s := range ifs.Body.List {
			if r, ok := s.(*ast.ReturnStmt); ok && len(r.Results) == 2 && !isNil(info, r.Results[1]) && canon(r.Results[1]) != "ErrAggrNotExist" {
				isErr = true
			}
		}
		if !isErr {
			continue
		}
		nTests++
		n, cx, err := e9TableD([]string{"i", "l", "extra"}, map[string][]int64{"i": {0, 1, 2, 3, 4}, "l": {0, 1, 2, 3}, "extra": {0, 1, 2}}, nil,
			func(env map[string]int64) (int64, error) {
				env["n"] = 1
				need := env["n"] + (4 - env["i"])
				if env["l"] > 0 {
					need += env["l"] + 1
				}
				env["lenb"] = need + env["extra"]
				env["rest"] = env["lenb"] - env["n"]
				v, err := x.eval(ifs.Cond, env)
				return b2i(v.b), err
			},
			func(env map[string]int64) int64 { return 0 })
		c.Stats["assignments_evaluated"] += n
		reportE9(c, rule, fmt.Sprintf("%s.(AggrChunk).Get#error-test[%d]", rel, nTests-1), p.Pos(ifs.Pos()), cx, err,
			"`"+exprString(ifs.Cond)+"` rejects a well-formed chunk (i = entry being scanned, l = its length, extra = bytes beyond the minimum; the buffer holds this entry and one byte for each later entry): an aggregate that is absent would be reported as a size error instead of ErrAggrNotExist")
	}
	if nTests == 0 {
		c.Incomplete(rule, rel+".(AggrChunk).Get", p.Pos(loop.Pos()), "no error test found in the scan loop")
	}
}
