package main

// Rules added after the second round of seeded changes (batch C41–C49).

import (
	"go/ast"
	"go/token"
	"go/types"
	"strings"
)

func init() {
	addRules("C47", rulesC47Env)
	addRules("C48", rulesC48Intervals)
	addRules("C45", rulesC45Dedup)
	addRules("C46", rulesC46SignalUnderLock)
	addRules("C42", rulesC42TrimPerSeries)
	addRules("C48", rulesC48Accumulator)
	addRules("C44", rulesC44DynamicLabels)
	addRules("C34", rulesC34FilterOrder)
	addRules("C38", rulesC38BufferGrowth)
	addRules("C10", rulesC10FreshLabelValues)
	addRules("C05", rulesC05SelectorContract)
}

// C05 (third seed): matchingStores pools, over all selected stores, the label sets TSDBSelector.MatchLabelSets
// kept and sends them to every store as matchers. A store that was kept as a whole must contribute its label
// sets too; "nil = everything" is only right when nothing is filtered at all. So MatchLabelSets may return a nil
// list only without a selector configuration or without label sets; every other return hands back the list the
// relabel rules produced.
func rulesC05SelectorContract(c *Ctx) {
	const rel, rule = "pkg/store", "selector-returns-kept-label-sets"
	c.Rule(rule, "MatchLabelSets returns nil label sets only when no selector is configured or none were given", 1)
	p := c.Load("pkg/store")
	if p == nil {
		return
	}
	fn := p.Func(rel, "TSDBSelector", "MatchLabelSets")
	if fn == nil {
		c.Incomplete(rule, rel+".(*TSDBSelector).MatchLabelSets", "", "function not found")
		return
	}
	info := fn.Info()
	bad, n := "", 0
	inspectNoLit(fn.Body(), func(nd ast.Node) bool {
		ret, ok := nd.(*ast.ReturnStmt)
		if !ok || len(ret.Results) != 2 {
			return true
		}
		n++
		if !isNil(info, ret.Results[1]) {
			// the list produced by the relabel rules
			if !strings.Contains(expandDefText(fn, info, ret.Results[1]), "runRelabelRules(") {
				bad = "`" + stmtText(p, ret) + "` does not return the label sets the relabel rules kept"
			}
			return true
		}
		justified := false
		for _, g := range guardsOf(p, fn, ret) {
			if !g.Pol {
				continue
			}
			ok := true
			var check func(e ast.Expr)
			check = func(e ast.Expr) {
				e = unparen(e)
				if b, isB := e.(*ast.BinaryExpr); isB && b.Op == token.LOR {
					check(b.X)
					check(b.Y)
					return
				}
				t := canon(e)
				if !(strings.HasSuffix(t, ".relabelConfig==nil") || t == "len("+namesOf(fn).P(0)+")==0") {
					ok = false
				}
			}
			check(g.Cond)
			if ok {
				justified = true
			}
		}
		if !justified {
			bad = "`" + stmtText(p, ret) + "` answers `all label sets` (nil) although a selector is configured and label sets were given"
		}
		return true
	})
	if n == 0 {
		bad = "no return found"
	}
	c.Check(bad == "", rule, rel+".(*TSDBSelector).MatchLabelSets", p.Pos(fn.Decl.Pos()), "kept-label-sets-not-returned",
		bad+": the proxy then generates matchers from the other stores' label sets only, and the store that was kept as a whole rejects the request by its own external labels — it is pruned although it holds matching series")
}

// C34 (third seed): the duplicate filter hides a block when another visible block covers its sources, the
// older one winning a tie. Blocks already hidden by their deletion mark must be gone before that decision:
// in every filter chain that holds both, the deletion-mark filter comes first.
func rulesC34FilterOrder(c *Ctx) {
	const rule = "marked-blocks-hidden-before-deduplication"
	c.Rule(rule, "IgnoreDeletionMarkFilter precedes the duplicate filter in every metadata filter chain", 2)
	p := c.Load("pkg/block", "cmd/thanos")
	if p == nil {
		return
	}
	n := 0
	for _, fn := range p.AllFuncs(true) {
		if relPkg(fn.Pkg.PkgPath) != "cmd/thanos" {
			continue
		}
		info := fn.Info()
		ast.Inspect(fn.Body(), func(nd ast.Node) bool {
			cl, ok := nd.(*ast.CompositeLit)
			if !ok {
				return true
			}
			sl, ok := info.TypeOf(cl).Underlying().(*types.Slice)
			if !ok || !strings.HasSuffix(shortType(sl.Elem()), "block.MetadataFilter") {
				return true
			}
			mark, dedup := -1, -1
			for i, el := range cl.Elts {
				t := strings.TrimPrefix(shortType(info.TypeOf(el)), "*")
				switch {
				case strings.HasSuffix(t, "block.IgnoreDeletionMarkFilter"):
					mark = i
				case strings.HasSuffix(t, "block.DefaultDeduplicateFilter") || strings.HasSuffix(t, "block.DeduplicateFilter"):
					dedup = i
				}
			}
			if mark < 0 || dedup < 0 {
				return true
			}
			// the property is about the long-running components; the bucket tools build one-shot views for
			// their own purposes (the retention tool lists the duplicate filter first) — noted, not judged
			if fn.Name != "runStore" && fn.Name != "runCompact" {
				if mark > dedup {
					c.Observe(rule, "cmd/thanos."+fn.Name+"#filters", p.Pos(cl.Pos()), "one-shot tool: the duplicate filter runs before the deletion-mark filter here, unlike in the store gateway and the compactor")
				}
				return true
			}
			n++
			c.Check(mark < dedup, rule, "cmd/thanos."+fn.Name+"#filters", p.Pos(cl.Pos()), "dedup-before-deletion-marks",
				"the duplicate filter runs before the deletion-mark filter: a marked block that is about to be hidden still hides its replacement (same sources, older ULID wins) and is then hidden itself — for the rest of the delete delay nobody serves those samples")
			return true
		})
	}
	if n == 0 {
		c.Incomplete(rule, "cmd/thanos", "", "no filter chain with both filters found")
	}
}

// C38 (third seed): a scratch buffer that is grown keeps what it already holds: copying into a slice that
// was just made with length 0 copies nothing.
func rulesC38BufferGrowth(c *Ctx) {
	const rel, rule = "pkg/compact/downsample", "buffer-growth-keeps-contents"
	c.Rule(rule, "no copy into a freshly made zero-length slice; buffers handed in by pointer are only appended to or truncated", 0)
	p := c.Load("pkg/compact/downsample")
	if p == nil {
		return
	}
	for _, fn := range p.AllFuncs(true) {
		if relPkg(fn.Pkg.PkgPath) != rel {
			continue
		}
		for _, u := range append([]*Fn{fn}, p.Lits(fn)...) {
			info := u.Info()
			inspectNoLit(u.Body(), func(nd ast.Node) bool {
				call, ok := nd.(*ast.CallExpr)
				if !ok || len(call.Args) != 2 {
					return true
				}
				id, ok := call.Fun.(*ast.Ident)
				if !ok || id.Name != "copy" {
					return true
				}
				if _, isB := info.Uses[id].(*types.Builtin); !isB {
					return true
				}
				dst, ok := unparen(call.Args[0]).(*ast.Ident)
				if !ok {
					return true
				}
				def := singleDef(u, info, objOf(info, dst))
				mk, ok := unparenOrNil(def).(*ast.CallExpr)
				if !ok || len(mk.Args) < 2 {
					return true
				}
				if f, ok := mk.Fun.(*ast.Ident); !ok || f.Name != "make" {
					return true
				}
				if v, isC := constInt(info, mk.Args[1]); isC && v == 0 {
					c.Bad(rule, rel+"."+u.Name+"#copy", p.Pos(call.Pos()), "copy-into-empty-slice",
						"`"+stmtText(p, call)+"`: "+dst.Name+" was made with length 0, so nothing is copied and what the buffer held is lost when it replaces the old one (samples of the chunks already expanded disappear from the aggregate)")
				}
				return true
			})
		}
	}
	c.OK(rule, rel+"#copies", "", "no copy into a zero-length destination")
}

// C10 (third seed): postingGroup.mergeKeys compacts the add-key list in place, and for all-values matchers
// that list IS what the index header's LabelValues returned. Every call must therefore get a slice of its own:
// LabelValues builds its result in a local slice and never stores it in the reader.
func rulesC10FreshLabelValues(c *Ctx) {
	const rel, rule = "pkg/block/indexheader", "label-values-result-owned-by-caller"
	c.Rule(rule, "BinaryReader.LabelValues returns a slice made in the call and keeps no reference to it", 1)
	p := c.Load("pkg/block/indexheader")
	if p == nil {
		return
	}
	fn := p.Func(rel, "BinaryReader", "LabelValues")
	if fn == nil {
		c.Incomplete(rule, rel+".(*BinaryReader).LabelValues", "", "function not found")
		return
	}
	info := fn.Info()
	recv := recvObj(fn)
	bad, nRet := "", 0
	ast.Inspect(fn.Body(), func(nd ast.Node) bool {
		switch v := nd.(type) {
		case *ast.ReturnStmt:
			if len(v.Results) != 2 || isNil(info, v.Results[0]) {
				return true
			}
			nRet++
			id, ok := unparen(v.Results[0]).(*ast.Ident)
			if !ok {
				bad = "the result " + canon(v.Results[0]) + " is not a local slice"
				return true
			}
			// defined by make in this function (appends to itself are fine)
			made := false
			ast.Inspect(fn.Body(), func(x ast.Node) bool {
				if as, ok := x.(*ast.AssignStmt); ok && len(as.Lhs) == 1 && len(as.Rhs) == 1 && objOf(info, as.Lhs[0]) == objOf(info, id) {
					if call, ok := unparen(as.Rhs[0]).(*ast.CallExpr); ok {
						if f, ok := call.Fun.(*ast.Ident); ok {
							switch f.Name {
							case "make":
								made = true
							case "append":
								if len(call.Args) > 0 && objOf(info, call.Args[0]) != objOf(info, id) {
									bad = "the result is appended to " + canon(call.Args[0])
								}
							}
						}
					} else {
						bad = "the result " + id.Name + " is taken from " + canon(as.Rhs[0])
					}
				}
				return true
			})
			if !made && bad == "" {
				bad = "the result " + id.Name + " is not made in this call"
			}
		case *ast.AssignStmt:
			// nothing reachable from the receiver may take the result
			for i, l := range v.Lhs {
				if i < len(v.Rhs) && rootIs(info, unwrapIndex(l), recv) && recv != nil {
					if sl, ok := info.TypeOf(v.Rhs[i]).Underlying().(*types.Slice); ok && shortType(sl.Elem()) == "string" {
						bad = "`" + stmtText(p, v) + "` keeps a []string in the reader"
					}
				}
			}
		}
		return true
	})
	if nRet == 0 && bad == "" {
		bad = "no result found"
	}
	c.Check(bad == "", rule, rel+".(*BinaryReader).LabelValues", p.Pos(fn.Decl.Pos()), "label-values-shared",
		bad+": callers (postingGroup.mergeKeys) compact that list in place, so a slice shared between calls makes one request's matchers change what later requests see")
}

func unwrapIndex(e ast.Expr) ast.Expr {
	for {
		switch v := unparen(e).(type) {
		case *ast.IndexExpr:
			e = v.X
		default:
			return unparen(e)
		}
	}
}

// C48 (third seed): the intervals to delete from one series are accumulated in a list of their own.
// tombstones.Intervals.Add edits its receiver in place when intervals touch, so the accumulator must never
// be (an alias of) a request's own interval list — otherwise one series widens the request for all later ones.
func rulesC48Accumulator(c *Ctx) {
	const rel, rule = "pkg/compactv2", "per-series-intervals-do-not-alias-requests"
	c.Rule(rule, "the per-series interval accumulator is only ever extended from its own value", 1)
	p := c.Load("pkg/compactv2")
	if p == nil {
		return
	}
	fn := p.Func(rel, "delModifierSeriesSet", "Next")
	if fn == nil {
		c.Incomplete(rule, rel+".(*delModifierSeriesSet).Next", "", "function not found")
		return
	}
	info := fn.Info()
	isIntervals := func(t types.Type) bool { return strings.HasSuffix(shortType(t), "tombstones.Intervals") }
	// accumulators: variables that receive the result of <x>.Add(...)
	acc := map[types.Object]bool{}
	ast.Inspect(fn.Body(), func(n ast.Node) bool {
		as, ok := n.(*ast.AssignStmt)
		if !ok || len(as.Lhs) != 1 || len(as.Rhs) != 1 {
			return true
		}
		if call, ok := unparen(as.Rhs[0]).(*ast.CallExpr); ok {
			if sel, ok := unparen(call.Fun).(*ast.SelectorExpr); ok && sel.Sel.Name == "Add" && isIntervals(info.TypeOf(sel.X)) {
				if o := objOf(info, as.Lhs[0]); o != nil {
					acc[o] = true
				}
			}
		}
		return true
	})
	if len(acc) == 0 {
		c.Incomplete(rule, rel+".(*delModifierSeriesSet).Next", p.Pos(fn.Decl.Pos()), "no interval accumulator found")
		return
	}
	bad, where := "", p.Pos(fn.Decl.Pos())
	ast.Inspect(fn.Body(), func(n ast.Node) bool {
		as, ok := n.(*ast.AssignStmt)
		if !ok || len(as.Lhs) != len(as.Rhs) {
			return true
		}
		for i, l := range as.Lhs {
			o := objOf(info, l)
			if o == nil || !acc[o] {
				continue
			}
			r := unparen(as.Rhs[i])
			okRHS := false
			switch v := r.(type) {
			case *ast.Ident:
				okRHS = v.Name == "nil"
			case *ast.CallExpr:
				if sel, ok := unparen(v.Fun).(*ast.SelectorExpr); ok && sel.Sel.Name == "Add" && objOf(info, sel.X) == o {
					okRHS = true // acc = acc.Add(x)
				}
				if id, ok := v.Fun.(*ast.Ident); ok && (id.Name == "make" || id.Name == "append") {
					okRHS = id.Name == "make" || (len(v.Args) > 0 && (canon(v.Args[0]) == "nil" || strings.HasSuffix(canon(v.Args[0]), "(nil)") || objOf(info, v.Args[0]) == o))
				}
			case *ast.CompositeLit:
				okRHS = true
			}
			if !okRHS {
				bad, where = "`"+stmtText(p, as)+"` makes the accumulator "+o.Name()+" share storage with "+canon(r), p.Pos(as.Pos())
			}
		}
		return true
	})
	c.Check(bad == "", rule, rel+".(*delModifierSeriesSet).Next", where, "accumulator-aliases-request",
		bad+": a later "+"Add merges into that storage in place, so the request itself grows and every following series matched by it loses samples outside what was asked for")
}

// C44 (third seed): the destination label of label_replace / label_join is computed from other labels, so it
// can never be a sharding label: every path through that case of QueryAnalyzer.Analyze records it as dynamic —
// not only under an aggregation; binary operations match on labels too.
func rulesC44DynamicLabels(c *Ctx) {
	const rel, rule = "pkg/querysharding", "rewritten-labels-always-dynamic"
	c.Rule(rule, "the label_replace / label_join case records the destination label on every path", 1)
	p := c.Load("pkg/querysharding")
	if p == nil {
		return
	}
	fn := p.Func(rel, "QueryAnalyzer", "Analyze")
	if fn == nil {
		c.Incomplete(rule, rel+".(*QueryAnalyzer).Analyze", "", "function not found")
		return
	}
	n := 0
	for _, u := range append([]*Fn{fn}, p.Lits(fn)...) {
		info := u.Info()
		ast.Inspect(u.Body(), func(nd ast.Node) bool {
			cc, ok := nd.(*ast.CaseClause)
			if !ok {
				return true
			}
			isCase := false
			for _, e := range cc.List {
				if t := canon(e); t == `"label_replace"` || t == `"label_join"` {
					isCase = true
				}
			}
			if !isCase {
				return true
			}
			n++
			paths, err := enumPaths(cc.Body)
			bad := ""
			if err != nil {
				bad = err.Error()
			}
			for _, pth := range paths {
				if pth.End == "return" {
					continue
				}
				recorded := false
				for _, a := range pth.Acts {
					as, ok := a.(*ast.AssignStmt)
					if !ok || len(as.Rhs) != 1 {
						continue
					}
					if call, ok := unparen(as.Rhs[0]).(*ast.CallExpr); ok && len(call.Args) >= 2 {
						if id, ok := call.Fun.(*ast.Ident); ok && id.Name == "append" && canon(call.Args[0]) == canon(as.Lhs[0]) && shortType(info.TypeOf(as.Lhs[0])) == "[]string" {
							recorded = true
						}
					}
				}
				if !recorded {
					var took []string
					for _, cnd := range pth.Conds {
						t := exprString(cnd.Atom)
						if !cnd.Pol {
							t = "!(" + t + ")"
						}
						took = append(took, t)
					}
					bad = "on the path [" + strings.Join(took, " ∧ ") + "] the destination label is not recorded as dynamic"
				}
			}
			c.Check(bad == "", rule, rel+".(*QueryAnalyzer).Analyze#label-rewrite-case", p.Pos(cc.Pos()), "rewritten-label-not-excluded",
				bad+": the query can then be sharded by a label the stored series do not carry in that form, and series that match after the rewrite land in different shards")
			return true
		})
	}
	if n == 0 {
		c.Incomplete(rule, rel+".(*QueryAnalyzer).Analyze", p.Pos(fn.Decl.Pos()), "no case for label_replace / label_join found")
	}
}

// C47: "unset" is decided by os.LookupEnv's second result, never by the value: a variable that is set to the
// empty string must be substituted (by nothing), not reported as unset.
func rulesC47Env(c *Ctx) {
	const rel, rule = "pkg/reloader", "unset-env-decided-by-lookup"
	c.Rule(rule, "the unset-variable branch of expandEnv is guarded by !ok of os.LookupEnv", 1)
	p := c.Load("pkg/reloader")
	if p == nil {
		return
	}
	fn := p.Func(rel, "Reloader", "expandEnv")
	if fn == nil {
		c.Incomplete(rule, rel+".(*Reloader).expandEnv", "", "function not found")
		return
	}
	bad := ""
	var okVar types.Object
	for _, u := range append([]*Fn{fn}, p.Lits(fn)...) {
		info := u.Info()
		ast.Inspect(u.Body(), func(n ast.Node) bool {
			switch v := n.(type) {
			case *ast.AssignStmt:
				if len(v.Rhs) == 1 && len(v.Lhs) == 2 {
					if call, ok := unparen(v.Rhs[0]).(*ast.CallExpr); ok {
						if f := calleeOf(info, call); f != nil && f.Pkg() != nil && f.Pkg().Path() == "os" && f.Name() == "LookupEnv" {
							okVar = objOf(info, v.Lhs[1])
						}
					}
				}
			case *ast.CallExpr:
				if f := calleeOf(info, v); f != nil && f.Pkg() != nil && f.Pkg().Path() == "os" && (f.Name() == "Getenv" || f.Name() == "ExpandEnv" || f.Name() == "Expand") {
					bad = "the value is read with os." + f.Name() + ", which cannot tell an unset variable from one set to the empty string"
				}
			}
			return true
		})
	}
	if bad == "" && okVar == nil {
		bad = "no os.LookupEnv call whose second result is kept"
	}
	if bad == "" {
		// the branch that reports the unset variable tests !ok
		found := false
		for _, u := range append([]*Fn{fn}, p.Lits(fn)...) {
			info := u.Info()
			ast.Inspect(u.Body(), func(n ast.Node) bool {
				ifs, ok := n.(*ast.IfStmt)
				if !ok || !isNegatedIdent(ifs.Cond) {
					return true
				}
				if id := unparen(unparen(ifs.Cond).(*ast.UnaryExpr).X).(*ast.Ident); objOf(info, id) == okVar && strings.Contains(stmtText(p, ifs.Body), "unset") {
					found = true
				}
				return true
			})
		}
		if !found {
			bad = "the branch reporting an unset variable is not guarded by the negated second result of os.LookupEnv"
		}
	}
	c.Check(bad == "", rule, rel+".(*Reloader).expandEnv", p.Pos(fn.Decl.Pos()), "unset-decided-by-value", bad+": a variable set to \"\" is treated as unset, so the output differs from the input with variables substituted (strict mode: the configuration is never applied)")
}

// C48: for every chunk of a matching series the deletion iterator collects the requested intervals that
// overlap it by looking at the WHOLE interval list: chunks are ordered by MinTime but may overlap, so an
// interval that ended inside an earlier chunk can still cover samples of a later one.
func rulesC48Intervals(c *Ctx) {
	const rel, rule = "pkg/compactv2", "every-interval-considered-for-every-chunk"
	c.Rule(rule, "the per-chunk interval scan ranges over all intervals, without break, and the list is never shortened", 1)
	p := c.Load("pkg/compactv2")
	if p == nil {
		return
	}
	fn := p.Func(rel, "delGenericSeriesIterator", "next")
	if fn == nil {
		c.Incomplete(rule, rel+".(*delGenericSeriesIterator).next", "", "function not found")
		return
	}
	info := fn.Info()
	recv := namesOf(fn).Recv
	var scan *ast.RangeStmt
	ast.Inspect(fn.Body(), func(n ast.Node) bool {
		if r, ok := n.(*ast.RangeStmt); ok && mentionsCall(r.Body, "OverlapsClosedInterval") {
			scan = r
		}
		return true
	})
	bad := ""
	switch {
	case scan == nil:
		bad = "no loop testing intervals with OverlapsClosedInterval"
	case canon(scan.X) != recv+".intervals":
		bad = "the scan ranges over " + canon(scan.X) + ", not over all requested intervals (" + recv + ".intervals)"
	default:
		ast.Inspect(scan.Body, func(n ast.Node) bool {
			if b, ok := n.(*ast.BranchStmt); ok && (b.Tok == token.BREAK || b.Tok == token.GOTO) {
				bad = "the scan stops early (`" + b.Tok.String() + "`)"
			}
			return true
		})
	}
	if bad == "" {
		ast.Inspect(fn.Body(), func(n ast.Node) bool {
			if as, ok := n.(*ast.AssignStmt); ok {
				for _, l := range as.Lhs {
					if canon(l) == recv+".intervals" {
						bad = "`" + stmtText(p, as) + "` shortens the list of requested intervals while chunks are still to come"
					}
				}
			}
			return true
		})
	}
	_ = info
	c.Check(bad == "", rule, rel+".(*delGenericSeriesIterator).next", p.Pos(fn.Decl.Pos()), "interval-scan-incomplete",
		bad+": a later chunk that overlaps an earlier one is not tested against that interval and keeps samples the request asked to delete")
}

// C45: rules of merged groups are deduplicated whatever the configuration: the call of dedupRules for each
// group in GRPCClient.Rules is unconditional (with no replica labels configured, identical rules from several
// rulers still collapse to one).
func rulesC45Dedup(c *Ctx) {
	const rel, rule = "pkg/rules", "rules-deduplicated-unconditionally"
	c.Rule(rule, "GRPCClient.Rules calls dedupRules for every group on every path", 1)
	p := c.Load("pkg/rules")
	if p == nil {
		return
	}
	fn := p.Func(rel, "GRPCClient", "Rules")
	if fn == nil {
		c.Incomplete(rule, rel+".(*GRPCClient).Rules", "", "function not found")
		return
	}
	info := fn.Info()
	n := 0
	inspectNoLit(fn.Body(), func(nd ast.Node) bool {
		call, ok := nd.(*ast.CallExpr)
		if !ok {
			return true
		}
		if f := calleeOf(info, call); f == nil || f.Name() != "dedupRules" {
			return true
		}
		n++
		var conds []string
		for _, g := range guardsOf(p, fn, call) {
			if allNilTests(info, g.Cond) {
				continue // error handling of the fan-out
			}
			conds = append(conds, exprString(g.Cond))
		}
		inLoop := false
		for par := p.ParentOf(fn.Pkg, call); par != nil; par = p.ParentOf(fn.Pkg, par) {
			if r, ok := par.(*ast.RangeStmt); ok && strings.HasSuffix(canon(r.X), ".groups") {
				inLoop = true
			}
		}
		c.Check(len(conds) == 0 && inLoop, rule, rel+".(*GRPCClient).Rules#dedupRules", p.Pos(call.Pos()), "rule-dedup-conditional",
			"rules are deduplicated only under `"+strings.Join(conds, " && ")+"` (or not for every merged group): otherwise identical rules reported by several rulers are returned once per ruler")
		return true
	})
	if n == 0 {
		c.Bad(rule, rel+".(*GRPCClient).Rules#dedupRules", p.Pos(fn.Decl.Pos()), "rule-dedup-missing", "GRPCClient.Rules does not deduplicate the rules of the merged groups")
	}
}

// C46: the wake-up token and the queue content change together: every send to and receive from the signal
// channel inside Push / Pop (other than Pop's initial blocking wait) happens while the queue mutex is held.
// A decision about the queue taken under the lock and acted on after releasing it can swallow the token of a
// Push that slipped in between — alerts stay queued with nobody woken.
func rulesC46SignalUnderLock(c *Ctx) {
	const rel, rule = "pkg/alert", "signal-changes-under-queue-lock"
	c.Rule(rule, "channel operations on the wake-up channel in Push/Pop happen with the queue mutex held", 2)
	p := c.Load("pkg/alert")
	if p == nil {
		return
	}
	for _, m := range []string{"Push", "Pop"} {
		fn := p.Func(rel, "Queue", m)
		if fn == nil {
			c.Incomplete(rule, rel+".(*Queue)."+m, "", "function not found")
			continue
		}
		info := fn.Info()
		isMtx := func(call *ast.CallExpr, name string) bool {
			sel, ok := unparen(call.Fun).(*ast.SelectorExpr)
			return ok && sel.Sel.Name == name && strings.HasSuffix(shortType(info.TypeOf(sel.X)), "sync.Mutex")
		}
		// forward flow: held?  (deferred Unlock keeps it held to the end)
		spec := FlowSpec[bool]{
			Entry: false,
			Transfer: func(n ast.Node, s bool) bool {
				if _, isDefer := n.(*ast.DeferStmt); isDefer {
					return s
				}
				inspectNoLit(n, func(x ast.Node) bool {
					if call, ok := x.(*ast.CallExpr); ok {
						if isMtx(call, "Lock") {
							s = true
						}
						if isMtx(call, "Unlock") {
							s = false
						}
					}
					return true
				})
				return s
			},
			Join:  func(a, b bool) bool { return a && b },
			Equal: func(a, b bool) bool { return a == b },
		}
		r := runFlow(p, fn, spec)
		isSignal := func(e ast.Expr) bool {
			sel, ok := unparen(e).(*ast.SelectorExpr)
			if !ok {
				return false
			}
			ch, ok := info.TypeOf(sel).Underlying().(*types.Chan)
			return ok && shortType(ch.Elem()) == "struct{}" && objOf(info, sel.X) == recvObj(fn)
		}
		n, bad, where := 0, "", p.Pos(fn.Decl.Pos())
		first := true
		inspectNoLit(fn.Body(), func(nd ast.Node) bool {
			var node ast.Node
			switch v := nd.(type) {
			case *ast.SendStmt:
				if isSignal(v.Chan) {
					node = v
				}
			case *ast.UnaryExpr:
				if v.Op == token.ARROW && isSignal(v.X) {
					node = v
				}
			}
			if node == nil {
				return true
			}
			n++
			// Pop's initial wait for the token is the one operation outside the lock
			if m == "Pop" && first {
				if _, isRecv := node.(*ast.UnaryExpr); isRecv {
					first = false
					return true
				}
			}
			first = false
			// the enclosing comm clause / statement is the CFG node
			// the CFG node: a send statement itself; for a receive the statement that contains it (the comm
			// statement of a select clause is a node of its own)
			var stmt ast.Node = node
			if _, isRecv := node.(*ast.UnaryExpr); isRecv {
				if par, ok := p.ParentOf(fn.Pkg, node).(ast.Stmt); ok {
					stmt = par
				}
			}
			held, reached := r.Before(stmt)
			if reached && !held {
				bad, where = "`"+stmtText(p, node)+"` runs without the queue mutex held", p.Pos(node.Pos())
			}
			return true
		})
		if n == 0 {
			c.Incomplete(rule, rel+".(*Queue)."+m, p.Pos(fn.Decl.Pos()), "no operation on the wake-up channel found")
			continue
		}
		c.Check(bad == "", rule, rel+".(*Queue)."+m, where, "signal-outside-lock",
			bad+": the token can be set or taken for a queue state that a concurrent Push has already changed, leaving alerts queued with no wake-up pending")
	}
}

// C42: when responses are merged, what is trimmed from a series depends on that series alone — on the last
// sample already merged for it and on its own first sample. A condition computed once per response (for
// instance from the first series' first sample) cannot decide it for the other series.
func rulesC42TrimPerSeries(c *Ctx) {
	const rel, rule = "internal/cortex/querier/queryrange", "overlap-trimmed-per-series"
	c.Rule(rule, "the overlap trimming in matrixMerge is guarded only by conditions over the series being merged", 2)
	p := c.Load("internal/cortex/querier/queryrange")
	if p == nil {
		return
	}
	fn := p.Func(rel, "", "matrixMerge")
	if fn == nil {
		c.Incomplete(rule, rel+".matrixMerge", "", "function not found")
		return
	}
	info := fn.Info()
	// the per-series loop: the innermost range loop
	var inner *ast.RangeStmt
	ast.Inspect(fn.Body(), func(n ast.Node) bool {
		if r, ok := n.(*ast.RangeStmt); ok {
			if par := enclosingRange(p, fn, r); par != nil {
				inner = r
			}
		}
		return true
	})
	if inner == nil || inner.Value == nil {
		c.Incomplete(rule, rel+".matrixMerge", p.Pos(fn.Decl.Pos()), "per-series loop not found")
		return
	}
	stream := objOf(info, inner.Value)
	n := 0
	ast.Inspect(inner.Body, func(nd ast.Node) bool {
		as, ok := nd.(*ast.AssignStmt)
		if !ok || len(as.Lhs) != 1 || len(as.Rhs) != 1 {
			return true
		}
		sel, ok := unparen(as.Lhs[0]).(*ast.SelectorExpr)
		if !ok || objOf(info, sel.X) != stream || (sel.Sel.Name != "Samples" && sel.Sel.Name != "Histograms") {
			return true
		}
		n++
		bad := ""
		for _, g := range guardsOf(p, fn, as) {
			if g.Cond.Pos() < inner.Body.Pos() {
				continue
			}
			ast.Inspect(g.Cond, func(x ast.Node) bool {
				id, ok := x.(*ast.Ident)
				if !ok {
					return true
				}
				v, ok := objOf(info, id).(*types.Var)
				if !ok || v.IsField() || !isLocalVar(v) {
					return true
				}
				// declared inside the per-series loop (or the loop variable itself)?
				if !(inner.Pos() <= v.Pos() && v.Pos() <= inner.End()) {
					bad = "the trim `" + stmtText(p, as) + "` is guarded by `" + exprString(g.Cond) + "`, which depends on " + v.Name() + ", computed outside the loop over the series"
				}
				return true
			})
		}
		c.Check(bad == "", rule, rel+".matrixMerge#trim:"+sel.Sel.Name, p.Pos(as.Pos()), "trim-decided-per-response", bad+": a series whose own samples overlap the merged ones keeps its duplicate boundary sample when that response-wide condition is false")
		return true
	})
	if n == 0 {
		c.Incomplete(rule, rel+".matrixMerge", p.Pos(inner.Pos()), "no trimming of the incoming series found")
	}
}

func enclosingRange(p *Prog, fn *Fn, n ast.Node) *ast.RangeStmt {
	for par := p.ParentOf(fn.Pkg, n); par != nil; par = p.ParentOf(fn.Pkg, par) {
		if r, ok := par.(*ast.RangeStmt); ok {
			return r
		}
	}
	return nil
}
