package main

// Rules added after the second round of seeded changes (batch C41–C49).

import (
	"go/ast"
	"go/token"
	"go/types"
	"strings"
)

func init() {
	addRules("C47", rulesC47Env)
	addRules("C48", rulesC48Intervals)
	addRules("C45", rulesC45Dedup)
	addRules("C46", rulesC46SignalUnderLock)
	addRules("C42", rulesC42TrimPerSeries)
}

// C47: "unset" is decided by os.LookupEnv's second result, never by the value: a variable that is set to the
// empty string must be substituted (by nothing), not reported as unset.
func rulesC47Env(c *Ctx) {
	const rel, rule = "pkg/reloader", "unset-env-decided-by-lookup"
	c.Rule(rule, "the unset-variable branch of expandEnv is guarded by !ok of os.LookupEnv", 1)
	p := c.Load("pkg/reloader")
	if p == nil {
		return
	}
	fn := p.Func(rel, "Reloader", "expandEnv")
	if fn == nil {
		c.Incomplete(rule, rel+".(*Reloader).expandEnv", "", "function not found")
		return
	}
	bad := ""
	var okVar types.Object
	for _, u := range append([]*Fn{fn}, p.Lits(fn)...) {
		info := u.Info()
		ast.Inspect(u.Body(), func(n ast.Node) bool {
			switch v := n.(type) {
			case *ast.AssignStmt:
				if len(v.Rhs) == 1 && len(v.Lhs) == 2 {
					if call, ok := unparen(v.Rhs[0]).(*ast.CallExpr); ok {
						if f := calleeOf(info, call); f != nil && f.Pkg() != nil && f.Pkg().Path() == "os" && f.Name() == "LookupEnv" {
							okVar = objOf(info, v.Lhs[1])
						}
					}
				}
			case *ast.CallExpr:
				if f := calleeOf(info, v); f != nil && f.Pkg() != nil && f.Pkg().Path() == "os" && (f.Name() == "Getenv" || f.Name() == "ExpandEnv" || f.Name() == "Expand") {
					bad = "the value is read with os." + f.Name() + ", which cannot tell an unset variable from one set to the empty string"
				}
			}
			return true
		})
	}
	if bad == "" && okVar == nil {
		bad = "no os.LookupEnv call whose second result is kept"
	}
	if bad == "" {
		// the branch that reports the unset variable tests !ok
		found := false
		for _, u := range append([]*Fn{fn}, p.Lits(fn)...) {
			info := u.Info()
			ast.Inspect(u.Body(), func(n ast.Node) bool {
				ifs, ok := n.(*ast.IfStmt)
				if !ok || !isNegatedIdent(ifs.Cond) {
					return true
				}
				if id := unparen(unparen(ifs.Cond).(*ast.UnaryExpr).X).(*ast.Ident); objOf(info, id) == okVar && strings.Contains(stmtText(p, ifs.Body), "unset") {
					found = true
				}
				return true
			})
		}
		if !found {
			bad = "the branch reporting an unset variable is not guarded by the negated second result of os.LookupEnv"
		}
	}
	c.Check(bad == "", rule, rel+".(*Reloader).expandEnv", p.Pos(fn.Decl.Pos()), "unset-decided-by-value", bad+": a variable set to \"\" is treated as unset, so the output differs from the input with variables substituted (strict mode: the configuration is never applied)")
}

// C48: for every chunk of a matching series the deletion iterator collects the requested intervals that
// overlap it by looking at the WHOLE interval list: chunks are ordered by MinTime but may overlap, so an
// interval that ended inside an earlier chunk can still cover samples of a later one.
func rulesC48Intervals(c *Ctx) {
	const rel, rule = "pkg/compactv2", "every-interval-considered-for-every-chunk"
	c.Rule(rule, "the per-chunk interval scan ranges over all intervals, without break, and the list is never shortened", 1)
	p := c.Load("pkg/compactv2")
	if p == nil {
		return
	}
	fn := p.Func(rel, "delGenericSeriesIterator", "next")
	if fn == nil {
		c.Incomplete(rule, rel+".(*delGenericSeriesIterator).next", "", "function not found")
		return
	}
	info := fn.Info()
	recv := namesOf(fn).Recv
	var scan *ast.RangeStmt
	ast.Inspect(fn.Body(), func(n ast.Node) bool {
		if r, ok := n.(*ast.RangeStmt); ok && mentionsCall(r.Body, "OverlapsClosedInterval") {
			scan = r
		}
		return true
	})
	bad := ""
	switch {
	case scan == nil:
		bad = "no loop testing intervals with OverlapsClosedInterval"
	case canon(scan.X) != recv+".intervals":
		bad = "the scan ranges over " + canon(scan.X) + ", not over all requested intervals (" + recv + ".intervals)"
	default:
		ast.Inspect(scan.Body, func(n ast.Node) bool {
			if b, ok := n.(*ast.BranchStmt); ok && (b.Tok == token.BREAK || b.Tok == token.GOTO) {
				bad = "the scan stops early (`" + b.Tok.String() + "`)"
			}
			return true
		})
	}
	if bad == "" {
		ast.Inspect(fn.Body(), func(n ast.Node) bool {
			if as, ok := n.(*ast.AssignStmt); ok {
				for _, l := range as.Lhs {
					if canon(l) == recv+".intervals" {
						bad = "`" + stmtText(p, as) + "` shortens the list of requested intervals while chunks are still to come"
					}
				}
			}
			return true
		})
	}
	_ = info
	c.Check(bad == "", rule, rel+".(*delGenericSeriesIterator).next", p.Pos(fn.Decl.Pos()), "interval-scan-incomplete",
		bad+": a later chunk that overlaps an earlier one is not tested against that interval and keeps samples the request asked to delete")
}

// C45: rules of merged groups are deduplicated whatever the configuration: the call of dedupRules for each
// group in GRPCClient.Rules is unconditional (with no replica labels configured, identical rules from several
// rulers still collapse to one).
func rulesC45Dedup(c *Ctx) {
	const rel, rule = "pkg/rules", "rules-deduplicated-unconditionally"
	c.Rule(rule, "GRPCClient.Rules calls dedupRules for every group on every path", 1)
	p := c.Load("pkg/rules")
	if p == nil {
		return
	}
	fn := p.Func(rel, "GRPCClient", "Rules")
	if fn == nil {
		c.Incomplete(rule, rel+".(*GRPCClient).Rules", "", "function not found")
		return
	}
	info := fn.Info()
	n := 0
	inspectNoLit(fn.Body(), func(nd ast.Node) bool {
		call, ok := nd.(*ast.CallExpr)
		if !ok {
			return true
		}
		if f := calleeOf(info, call); f == nil || f.Name() != "dedupRules" {
			return true
		}
		n++
		var conds []string
		for _, g := range guardsOf(p, fn, call) {
			if allNilTests(info, g.Cond) {
				continue // error handling of the fan-out
			}
			conds = append(conds, exprString(g.Cond))
		}
		inLoop := false
		for par := p.ParentOf(fn.Pkg, call); par != nil; par = p.ParentOf(fn.Pkg, par) {
			if r, ok := par.(*ast.RangeStmt); ok && strings.HasSuffix(canon(r.X), ".groups") {
				inLoop = true
			}
		}
		c.Check(len(conds) == 0 && inLoop, rule, rel+".(*GRPCClient).Rules#dedupRules", p.Pos(call.Pos()), "rule-dedup-conditional",
			"rules are deduplicated only under `"+strings.Join(conds, " && ")+"` (or not for every merged group): otherwise identical rules reported by several rulers are returned once per ruler")
		return true
	})
	if n == 0 {
		c.Bad(rule, rel+".(*GRPCClient).Rules#dedupRules", p.Pos(fn.Decl.Pos()), "rule-dedup-missing", "GRPCClient.Rules does not deduplicate the rules of the merged groups")
	}
}

// C46: the wake-up token and the queue content change together: every send to and receive from the signal
// channel inside Push / Pop (other than Pop's initial blocking wait) happens while the queue mutex is held.
// A decision about the queue taken under the lock and acted on after releasing it can swallow the token of a
// Push that slipped in between — alerts stay queued with nobody woken.
func rulesC46SignalUnderLock(c *Ctx) {
	const rel, rule = "pkg/alert", "signal-changes-under-queue-lock"
	c.Rule(rule, "channel operations on the wake-up channel in Push/Pop happen with the queue mutex held", 2)
	p := c.Load("pkg/alert")
	if p == nil {
		return
	}
	for _, m := range []string{"Push", "Pop"} {
		fn := p.Func(rel, "Queue", m)
		if fn == nil {
			c.Incomplete(rule, rel+".(*Queue)."+m, "", "function not found")
			continue
		}
		info := fn.Info()
		isMtx := func(call *ast.CallExpr, name string) bool {
			sel, ok := unparen(call.Fun).(*ast.SelectorExpr)
			return ok && sel.Sel.Name == name && strings.HasSuffix(shortType(info.TypeOf(sel.X)), "sync.Mutex")
		}
		// forward flow: held?  (deferred Unlock keeps it held to the end)
		spec := FlowSpec[bool]{
			Entry: false,
			Transfer: func(n ast.Node, s bool) bool {
				if _, isDefer := n.(*ast.DeferStmt); isDefer {
					return s
				}
				inspectNoLit(n, func(x ast.Node) bool {
					if call, ok := x.(*ast.CallExpr); ok {
						if isMtx(call, "Lock") {
							s = true
						}
						if isMtx(call, "Unlock") {
							s = false
						}
					}
					return true
				})
				return s
			},
			Join:  func(a, b bool) bool { return a && b },
			Equal: func(a, b bool) bool { return a == b },
		}
		r := runFlow(p, fn, spec)
		isSignal := func(e ast.Expr) bool {
			sel, ok := unparen(e).(*ast.SelectorExpr)
			if !ok {
				return false
			}
			ch, ok := info.TypeOf(sel).Underlying().(*types.Chan)
			return ok && shortType(ch.Elem()) == "struct{}" && objOf(info, sel.X) == recvObj(fn)
		}
		n, bad, where := 0, "", p.Pos(fn.Decl.Pos())
		first := true
		inspectNoLit(fn.Body(), func(nd ast.Node) bool {
			var node ast.Node
			switch v := nd.(type) {
			case *ast.SendStmt:
				if isSignal(v.Chan) {
					node = v
				}
			case *ast.UnaryExpr:
				if v.Op == token.ARROW && isSignal(v.X) {
					node = v
				}
			}
			if node == nil {
				return true
			}
			n++
			// Pop's initial wait for the token is the one operation outside the lock
			if m == "Pop" && first {
				if _, isRecv := node.(*ast.UnaryExpr); isRecv {
					first = false
					return true
				}
			}
			first = false
			// the enclosing comm clause / statement is the CFG node
			// the CFG node: a send statement itself; for a receive the statement that contains it (the comm
			// statement of a select clause is a node of its own)
			var stmt ast.Node = node
			if _, isRecv := node.(*ast.UnaryExpr); isRecv {
				if par, ok := p.ParentOf(fn.Pkg, node).(ast.Stmt); ok {
					stmt = par
				}
			}
			held, reached := r.Before(stmt)
			if reached && !held {
				bad, where = "`"+stmtText(p, node)+"` runs without the queue mutex held", p.Pos(node.Pos())
			}
			return true
		})
		if n == 0 {
			c.Incomplete(rule, rel+".(*Queue)."+m, p.Pos(fn.Decl.Pos()), "no operation on the wake-up channel found")
			continue
		}
		c.Check(bad == "", rule, rel+".(*Queue)."+m, where, "signal-outside-lock",
			bad+": the token can be set or taken for a queue state that a concurrent Push has already changed, leaving alerts queued with no wake-up pending")
	}
}

// C42: when responses are merged, what is trimmed from a series depends on that series alone — on the last
// sample already merged for it and on its own first sample. A condition computed once per response (for
// instance from the first series' first sample) cannot decide it for the other series.
func rulesC42TrimPerSeries(c *Ctx) {
	const rel, rule = "internal/cortex/querier/queryrange", "overlap-trimmed-per-series"
	c.Rule(rule, "the overlap trimming in matrixMerge is guarded only by conditions over the series being merged", 2)
	p := c.Load("internal/cortex/querier/queryrange")
	if p == nil {
		return
	}
	fn := p.Func(rel, "", "matrixMerge")
	if fn == nil {
		c.Incomplete(rule, rel+".matrixMerge", "", "function not found")
		return
	}
	info := fn.Info()
	// the per-series loop: the innermost range loop
	var inner *ast.RangeStmt
	ast.Inspect(fn.Body(), func(n ast.Node) bool {
		if r, ok := n.(*ast.RangeStmt); ok {
			if par := enclosingRange(p, fn, r); par != nil {
				inner = r
			}
		}
		return true
	})
	if inner == nil || inner.Value == nil {
		c.Incomplete(rule, rel+".matrixMerge", p.Pos(fn.Decl.Pos()), "per-series loop not found")
		return
	}
	stream := objOf(info, inner.Value)
	n := 0
	ast.Inspect(inner.Body, func(nd ast.Node) bool {
		as, ok := nd.(*ast.AssignStmt)
		if !ok || len(as.Lhs) != 1 || len(as.Rhs) != 1 {
			return true
		}
		sel, ok := unparen(as.Lhs[0]).(*ast.SelectorExpr)
		if !ok || objOf(info, sel.X) != stream || (sel.Sel.Name != "Samples" && sel.Sel.Name != "Histograms") {
			return true
		}
		n++
		bad := ""
		for _, g := range guardsOf(p, fn, as) {
			if g.Cond.Pos() < inner.Body.Pos() {
				continue
			}
			ast.Inspect(g.Cond, func(x ast.Node) bool {
				id, ok := x.(*ast.Ident)
				if !ok {
					return true
				}
				v, ok := objOf(info, id).(*types.Var)
				if !ok || v.IsField() || !isLocalVar(v) {
					return true
				}
				// declared inside the per-series loop (or the loop variable itself)?
				if !(inner.Pos() <= v.Pos() && v.Pos() <= inner.End()) {
					bad = "the trim `" + stmtText(p, as) + "` is guarded by `" + exprString(g.Cond) + "`, which depends on " + v.Name() + ", computed outside the loop over the series"
				}
				return true
			})
		}
		c.Check(bad == "", rule, rel+".matrixMerge#trim:"+sel.Sel.Name, p.Pos(as.Pos()), "trim-decided-per-response", bad+": a series whose own samples overlap the merged ones keeps its duplicate boundary sample when that response-wide condition is false")
		return true
	})
	if n == 0 {
		c.Incomplete(rule, rel+".matrixMerge", p.Pos(inner.Pos()), "no trimming of the incoming series found")
	}
}

func enclosingRange(p *Prog, fn *Fn, n ast.Node) *ast.RangeStmt {
	for par := p.ParentOf(fn.Pkg, n); par != nil; par = p.ParentOf(fn.Pkg, par) {
		if r, ok := par.(*ast.RangeStmt); ok {
			return r
		}
	}
	return nil
}
