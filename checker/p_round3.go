package main

// Rules added after the third round of seeded changes.

import (
	"go/ast"
	"go/token"
	"go/types"
	"strings"
)

func init() {
	addRules("C03", rulesC03EagerResort)
	addRules("C08", rulesC08FiltersDoNotWriteInput)
	addRules("C11", rulesC11ValueScanUnbounded)
	addRules("C09", rulesC09AtomicBudget)
	addRules("C14", rulesC14KeyFromFinalStruct)
	addRules("C21", rulesC21SubringOwnsNodes)
}

// C21: a tenant's cached sub-ring keeps the node list it was built from (newKetamaHashring stores the slice it is
// given). The list handed over is therefore built in storage of its own on every computation: a list that lives
// in the shuffle-shard ring (a scratch field, a reslice of the base ring) is overwritten by the next tenant's
// computation and the cached sub-ring silently changes its nodes.
func rulesC21SubringOwnsNodes(c *Ctx) {
	const rel, rule = "pkg/receive", "subring-owns-its-node-list"
	c.Rule(rule, "the node list of a tenant's sub-ring is freshly allocated per computation (or copied by the constructor)", 1)
	p := c.Load("pkg/receive")
	if p == nil {
		return
	}
	fn := p.Func(rel, "shuffleShardHashring", "getTenantShard")
	ctor := p.Func(rel, "", "newKetamaHashring")
	construct := rel + ".(*shuffleShardHashring).getTenantShard"
	if fn == nil || ctor == nil {
		c.Incomplete(rule, construct, "", "getTenantShard / newKetamaHashring not found")
		return
	}
	// does the constructor keep its argument?
	keeps := false
	if ps := ctor.Decl.Type.Params; ps != nil && len(ps.List) > 0 && len(ps.List[0].Names) > 0 {
		po := ctor.Info().Defs[ps.List[0].Names[0]]
		ast.Inspect(ctor.Body(), func(n ast.Node) bool {
			switch v := n.(type) {
			case *ast.KeyValueExpr:
				if id, ok := unparen(v.Value).(*ast.Ident); ok && objOf(ctor.Info(), id) == po {
					keeps = true
				}
			case *ast.AssignStmt:
				for i, r := range v.Rhs {
					if id, ok := unparen(r).(*ast.Ident); ok && objOf(ctor.Info(), id) == po && i < len(v.Lhs) {
						if _, isSel := unparen(v.Lhs[i]).(*ast.SelectorExpr); isSel {
							keeps = true
						}
					}
				}
			}
			return true
		})
	}
	if !keeps {
		c.Check(true, rule, construct, p.Pos(fn.Decl.Pos()), "", "")
		return
	}
	info := fn.Info()
	bad, where, calls := "", p.Pos(fn.Decl.Pos()), 0
	ast.Inspect(fn.Body(), func(n ast.Node) bool {
		call, ok := n.(*ast.CallExpr)
		if !ok || len(call.Args) == 0 {
			return true
		}
		if f := calleeOf(info, call); f == nil || f.Name() != "newKetamaHashring" {
			return true
		}
		calls++
		id, ok := unparen(call.Args[0]).(*ast.Ident)
		if !ok {
			if !freshSliceExpr(info, call.Args[0], nil) {
				bad, where = "the sub-ring is built from `"+canon(call.Args[0])+"`, which is not storage of its own", p.Pos(call.Pos())
			}
			return true
		}
		o := objOf(info, id)
		ndefs := 0
		ast.Inspect(fn.Body(), func(m ast.Node) bool {
			var lhs, rhs []ast.Expr
			switch v := m.(type) {
			case *ast.AssignStmt:
				lhs, rhs = v.Lhs, v.Rhs
			case *ast.ValueSpec:
				for _, nm := range v.Names {
					lhs = append(lhs, nm)
				}
				rhs = v.Values
			default:
				return true
			}
			for i, l := range lhs {
				li, ok := unparen(l).(*ast.Ident)
				if !ok || objOf(info, li) != o {
					continue
				}
				ndefs++
				if len(rhs) == 0 {
					continue // var x []T
				}
				if len(rhs) != len(lhs) {
					bad, where = "`"+canon(id)+"` comes from a multi-value call", p.Pos(m.Pos())
					continue
				}
				if !freshSliceExpr(info, rhs[i], o) {
					bad, where = "`"+stmtText(p, m)+"`: the node list handed to newKetamaHashring is not freshly allocated", p.Pos(m.Pos())
				}
			}
			return true
		})
		if ndefs == 0 {
			bad, where = "`"+canon(id)+"` is not a local of this computation", p.Pos(call.Pos())
		}
		return true
	})
	if calls == 0 {
		bad = "no sub-ring construction found"
	}
	c.Check(bad == "", rule, construct, where, "subring-shares-node-storage",
		bad+": newKetamaHashring keeps the slice, so every cached sub-ring built from shared storage changes when the next tenant is computed — a tenant is no longer assigned the same nodes every time")
}

// freshSliceExpr: make(...), a composite literal, nil, slices.Clone(...), append of fresh or of the variable itself.
func freshSliceExpr(info *types.Info, e ast.Expr, self types.Object) bool {
	switch v := unparen(e).(type) {
	case *ast.CompositeLit:
		return true
	case *ast.Ident:
		return v.Name == "nil" || (self != nil && objOf(info, v) == self)
	case *ast.CallExpr:
		if id, ok := unparen(v.Fun).(*ast.Ident); ok {
			switch id.Name {
			case "make":
				return true
			case "append":
				if len(v.Args) == 0 {
					return false
				}
				// append([]T(nil), xs...) / append([]T{}, xs...) copy; append(self, x) grows own storage
				if c, ok := unparen(v.Args[0]).(*ast.CallExpr); ok && len(c.Args) == 1 {
					if tv, ok := info.Types[c.Fun]; ok && tv.IsType() {
						return freshSliceExpr(info, c.Args[0], self)
					}
				}
				return freshSliceExpr(info, v.Args[0], self)
			}
		}
		if f := calleeOf(info, v); f != nil && f.Pkg() != nil && f.Pkg().Path() == "slices" && f.Name() == "Clone" {
			return true
		}
	}
	return false
}

// C14: a cache key is rendered from the key struct after its last field write: a field assigned after
// String() was taken (the recursive-listing verb, an object-storage hash) is not part of the key, and two
// operations with different results share one entry. And the listing key distinguishes recursive listings.
func rulesC14KeyFromFinalStruct(c *Ctx) {
	const rel, rule = "pkg/store/cache", "key-rendered-from-final-struct"
	c.Rule(rule, "no cache-key field is written after the key string was taken; recursive listings have their own verb", 1)
	p := c.Load("pkg/store/cache")
	if p == nil {
		return
	}
	isKey := func(t types.Type) bool { return t != nil && isNamed(t, "cache/cachekey", "BucketCacheKey") }
	for _, fn := range p.AllFuncs(true) {
		if fn.Pkg.PkgPath == "" || !strings.HasSuffix(fn.Pkg.PkgPath, rel) {
			continue
		}
		info := fn.Info()
		// key variables with a field write
		type fw struct {
			node ast.Node
			sel  *ast.SelectorExpr
		}
		writes := map[types.Object][]fw{}
		ast.Inspect(fn.Body(), func(n ast.Node) bool {
			as, ok := n.(*ast.AssignStmt)
			if !ok {
				return true
			}
			for _, l := range as.Lhs {
				if se, ok := unparen(l).(*ast.SelectorExpr); ok {
					if id, ok := unparen(se.X).(*ast.Ident); ok {
						if o := objOf(info, id); o != nil && isKey(o.Type()) {
							writes[o] = append(writes[o], fw{as, se})
						}
					}
				}
			}
			return true
		})
		construct := rel + "." + fn.Name
		for o, ws := range writes {
			obj := o
			e := newE3(p, fn, []Ev{{Name: "render", Match: func(i *types.Info, call *ast.CallExpr) bool {
				se, ok := unparen(call.Fun).(*ast.SelectorExpr)
				if !ok || se.Sel.Name != "String" {
					return false
				}
				id, ok := unparen(se.X).(*ast.Ident)
				return ok && objOf(i, id) == obj
			}}})
			bad, where := "", p.Pos(fn.Node().Pos())
			for _, w := range ws {
				if b, ok := e.Before(w.node, "render"); ok && b&^eNo != 0 {
					bad, where = "`"+stmtText(p, w.node)+"` writes "+obj.Name()+"."+w.sel.Sel.Name+" after "+obj.Name()+".String() was taken "+evBitsString(b), p.Pos(w.node.Pos())
				}
			}
			c.Check(bad == "", rule, construct+"#"+shortType(obj.Type()), where, "key-field-written-after-render",
				bad+": the field is not part of the key, so operations that differ only in it read and fill the same entry")
		}
		if fn.Name != "(*CachingBucket).Iter" {
			continue
		}
		// the recursive option selects its own verb
		found := false
		ast.Inspect(fn.Body(), func(n ast.Node) bool {
			as, ok := n.(*ast.AssignStmt)
			if !ok || len(as.Lhs) != 1 || len(as.Rhs) != 1 {
				return true
			}
			switch l := unparen(as.Lhs[0]).(type) {
			case *ast.SelectorExpr:
				if l.Sel.Name != "Verb" || !isKey(info.TypeOf(l.X)) {
					return true
				}
			case *ast.Ident:
				// a local that becomes the Verb of a key literal
				o, used := objOf(info, l), false
				ast.Inspect(fn.Body(), func(m ast.Node) bool {
					if cl, ok := m.(*ast.CompositeLit); ok && isKey(info.TypeOf(cl)) {
						for _, el := range cl.Elts {
							if kv, ok := el.(*ast.KeyValueExpr); ok && canon(kv.Key) == "Verb" {
								if id, ok := unparen(kv.Value).(*ast.Ident); ok && o != nil && objOf(info, id) == o {
									used = true
								}
							}
						}
					}
					return true
				})
				if !used {
					return true
				}
			default:
				return true
			}
			if !strings.HasSuffix(canon(as.Rhs[0]), "IterRecursiveVerb") {
				return true
			}
			for _, g := range guardsOf(p, fn, as) {
				if g.Pol && strings.HasSuffix(canon(g.Cond), ".Recursive") {
					found = true
				}
			}
			return true
		})
		if !found {
			// or chosen in the literal through a helper / conditional variable: accept a Verb that is not the constant IterVerb
			ast.Inspect(fn.Body(), func(n ast.Node) bool {
				if cl, ok := n.(*ast.CompositeLit); ok && isKey(info.TypeOf(cl)) {
					for _, el := range cl.Elts {
						if kv, ok := el.(*ast.KeyValueExpr); ok && canon(kv.Key) == "Verb" && !strings.HasSuffix(canon(kv.Value), "IterVerb") {
							found = strings.Contains(expandDefText(fn, info, kv.Value), "Recursive") || found
						}
					}
				}
				return true
			})
		}
		c.Check(found, rule, construct+"#recursive-verb", p.Pos(fn.Node().Pos()), "recursive-listing-shares-key",
			"Iter does not select the recursive verb under the Recursive option: flat and recursive listings of a directory would share one entry")
	}
}

// C03: a store that cannot strip replica labels itself is re-sorted after the labels are removed — removing
// a label that is constant over the store still changes the order (it takes part in the comparison at its
// name position). Every path of the eager set's receive goroutine ends in sortWithoutLabels.
func rulesC03EagerResort(c *Ctx) {
	const rel, rule = "pkg/store", "eager-set-resorted-after-label-removal"
	c.Rule(rule, "the eager response set always re-sorts after removing replica labels", 1)
	p := c.Load("pkg/store", "pkg/store/storepb")
	if p == nil {
		return
	}
	fn := p.Func(rel, "", "newEagerRespSet")
	if fn == nil {
		c.Incomplete(rule, rel+".newEagerRespSet", "", "function not found")
		return
	}
	// the receive goroutine: the literal started with `go`
	var worker *Fn
	ast.Inspect(fn.Body(), func(n ast.Node) bool {
		if g, ok := n.(*ast.GoStmt); ok {
			if lit, ok := unparen(g.Call.Fun).(*ast.FuncLit); ok {
				for _, l := range p.Lits(fn) {
					if l.Lit == lit {
						worker = l
					}
				}
			}
		}
		return true
	})
	if worker == nil {
		c.Incomplete(rule, rel+".newEagerRespSet#worker", p.Pos(fn.Decl.Pos()), "receive goroutine not found")
		return
	}
	e := newE3(p, worker, []Ev{{Name: "sort", Match: func(i *types.Info, call *ast.CallExpr) bool {
		f := calleeOf(i, call)
		return f != nil && f.Name() == "sortWithoutLabels"
	}}})
	bad, where, n := "", p.Pos(worker.Node().Pos()), 0
	for _, ex := range e.Exits() {
		if ex.Panic {
			continue
		}
		n++
		if ex.Bits["sort"]&eNo != 0 {
			bad, where = "the receive goroutine can finish without sortWithoutLabels "+evBitsString(ex.Bits["sort"]), ex.Pos
		}
	}
	if n == 0 {
		bad = "no exit of the receive goroutine found"
	}
	c.Check(bad == "", rule, rel+".newEagerRespSet#worker", where, "eager-set-not-resorted",
		bad+": with replica labels removed but the series not re-sorted, the store's stream enters the merge out of order — equal label sets are no longer adjacent and are listed twice")
	// and sortWithoutLabels itself sorts after removing
	if sw := p.Func(rel, "", "sortWithoutLabels"); sw != nil {
		sorts := false
		ast.Inspect(sw.Body(), func(nd ast.Node) bool {
			if call, ok := nd.(*ast.CallExpr); ok {
				if f := calleeOf(sw.Info(), call); f != nil && f.Pkg() != nil && (f.Pkg().Path() == "sort" || f.Pkg().Path() == "slices") {
					sorts = true
				}
			}
			return true
		})
		c.Check(sorts, rule, rel+".sortWithoutLabels", p.Pos(sw.Decl.Pos()), "no-sort", "sortWithoutLabels does not sort")
	}
}

// C08: the matcher filters get the request's matcher list, which the caller hands to every block set /
// store in turn; they build their result in a slice of their own and never write into (a reslice of) the input.
func rulesC08FiltersDoNotWriteInput(c *Ctx) {
	const rel, rule = "pkg/store", "matcher-filters-leave-input-intact"
	c.Rule(rule, "the matcher filters never append to or assign into a reslice of their input list", 3)
	p := c.Load("pkg/store", "pkg/store/labelpb")
	if p == nil {
		return
	}
	for _, s := range [][2]string{{"", "matchesExternalLabels"}, {"bucketBlockSet", "labelMatchers"}, {"bucketBlock", "FilterExtLabelsMatchers"}} {
		fn := p.Func(rel, s[0], s[1])
		construct := rel + "." + s[1]
		if fn == nil {
			c.Incomplete(rule, construct, "", "function not found")
			continue
		}
		info := fn.Info()
		// the input lists: slice-typed parameters
		tainted := map[types.Object]bool{}
		if ps := fn.Decl.Type.Params; ps != nil {
			for _, f := range ps.List {
				for _, nm := range f.Names {
					if o := info.Defs[nm]; o != nil {
						if _, ok := o.Type().Underlying().(*types.Slice); ok {
							tainted[o] = true
						}
					}
				}
			}
		}
		var isT func(e ast.Expr) bool
		isT = func(e ast.Expr) bool {
			switch v := unparen(e).(type) {
			case *ast.Ident:
				return tainted[objOf(info, v)]
			case *ast.SliceExpr:
				return isT(v.X)
			case *ast.CallExpr:
				if id, ok := v.Fun.(*ast.Ident); ok && id.Name == "append" && len(v.Args) > 0 {
					return isT(v.Args[0])
				}
			}
			return false
		}
		for changed := true; changed; {
			changed = false
			ast.Inspect(fn.Body(), func(n ast.Node) bool {
				if as, ok := n.(*ast.AssignStmt); ok && len(as.Lhs) == len(as.Rhs) {
					for i, r := range as.Rhs {
						if id, ok := unparen(as.Lhs[i]).(*ast.Ident); ok && isT(r) {
							if o := objOf(info, id); o != nil && !tainted[o] {
								tainted[o] = true
								changed = true
							}
						}
					}
				}
				return true
			})
		}
		bad, where := "", p.Pos(fn.Decl.Pos())
		ast.Inspect(fn.Body(), func(n ast.Node) bool {
			switch v := n.(type) {
			case *ast.CallExpr:
				if id, ok := v.Fun.(*ast.Ident); ok && id.Name == "append" && len(v.Args) > 1 && isT(v.Args[0]) {
					bad, where = "`"+stmtText(p, v)+"` appends through "+canon(v.Args[0])+", which shares the caller's matcher list", p.Pos(v.Pos())
				}
			case *ast.AssignStmt:
				for _, l := range v.Lhs {
					if ix, ok := unparen(l).(*ast.IndexExpr); ok && isT(ix.X) {
						bad, where = "`"+stmtText(p, v)+"` overwrites an element of the caller's matcher list", p.Pos(v.Pos())
					}
				}
			}
			return true
		})
		c.Check(bad == "", rule, construct, where, "filter-writes-input",
			bad+": the caller passes the same list to the next block set / store, which then no longer sees the selectors that were shifted away and returns series the request excluded")
	}
}

// C11: LabelValues reads the values of a name from the postings table from the first sampled offset up to the
// name's last value; the only ways out of the scan are a decoding error and reaching that last value. A bound
// on the number of values (derived from the number of sampled offsets) stops one short when the last value
// starts a window of its own.
func rulesC11ValueScanUnbounded(c *Ctx) {
	const rel, rule = "pkg/block/indexheader", "label-values-scan-ends-at-last-value"
	c.Rule(rule, "the value scan of LabelValues ends only on a decoding error or at the label's last value", 1)
	p := c.Load("pkg/block/indexheader")
	if p == nil {
		return
	}
	fn := p.Func(rel, "BinaryReader", "LabelValues")
	if fn == nil {
		c.Incomplete(rule, rel+".(*BinaryReader).LabelValues", "", "function not found")
		return
	}
	info := fn.Info()
	var scan *ast.ForStmt
	ast.Inspect(fn.Body(), func(n ast.Node) bool {
		if f, ok := n.(*ast.ForStmt); ok && f.Init == nil && f.Post == nil {
			scan = f
		}
		return true
	})
	if scan == nil {
		c.Incomplete(rule, rel+".(*BinaryReader).LabelValues", p.Pos(fn.Decl.Pos()), "scan loop not found")
		return
	}
	bad := ""
	if scan.Cond != nil {
		if x, nonNil, ok := nilTest(info, scan.Cond); !ok || nonNil || !strings.HasSuffix(canon(x), ".Err()") {
			bad = "the scan also stops under `" + exprString(scan.Cond) + "`"
		}
	}
	ast.Inspect(scan.Body, func(n ast.Node) bool {
		b, ok := n.(*ast.BranchStmt)
		if !ok || b.Tok != token.BREAK || bad != "" {
			return true
		}
		okGuard := false
		for _, g := range guardsOf(p, fn, b) {
			if be, ok := unparen(g.Cond).(*ast.BinaryExpr); ok && g.Pol && be.Op == token.EQL {
				if strings.Contains(expandDefText(fn, info, be.Y), "].value") || strings.Contains(expandDefText(fn, info, be.X), "].value") {
					okGuard = true
				}
			}
		}
		if !okGuard {
			bad = "the scan is left at " + p.Pos(b.Pos()) + " for a reason other than having read the label's last value"
		}
		return true
	})
	c.Check(bad == "", rule, rel+".(*BinaryReader).LabelValues", p.Pos(scan.Pos()), "value-scan-bounded",
		bad+": when the last value of a label is itself a sampled entry the count-based bound is one short and the largest value is silently missing")
}

// C09: the budget of a request is shared by the goroutines of all its blocks: the limit is compared with the
// value the atomic Add returned. Reading the counter first and adding afterwards lets two reservations that
// together cross the limit both pass.
func rulesC09AtomicBudget(c *Ctx) {
	const rel, rule = "pkg/store", "limit-tested-on-add-result"
	c.Rule(rule, "the limiter compares the limit with the result of the atomic Add", 1)
	p := c.Load("pkg/store")
	if p == nil {
		return
	}
	fn := p.Func(rel, "Limiter", "ReserveWithType")
	if fn == nil {
		c.Incomplete(rule, rel+".(*Limiter).ReserveWithType", "", "function not found")
		return
	}
	info := fn.Info()
	bad, found := "", false
	ast.Inspect(fn.Body(), func(n ast.Node) bool {
		be, ok := n.(*ast.BinaryExpr)
		if !ok || (be.Op != token.GTR && be.Op != token.GEQ && be.Op != token.LSS && be.Op != token.LEQ) {
			return true
		}
		x, y := expandDefText(fn, info, be.X), expandDefText(fn, info, be.Y)
		if !strings.HasSuffix(x, ".limit") && !strings.HasSuffix(y, ".limit") {
			return true
		}
		found = true
		other := x
		if strings.HasSuffix(x, ".limit") {
			other = y
		}
		if !strings.Contains(other, ".Add(") || strings.Contains(other, ".Load()") {
			bad = "the limit is compared with " + other + ", not with the value returned by the atomic Add"
		}
		return true
	})
	if !found {
		bad = "no comparison with the limit found"
	}
	c.Check(bad == "", rule, rel+".(*Limiter).ReserveWithType", p.Pos(fn.Decl.Pos()), "check-then-add",
		bad+": concurrent block goroutines can each see room and all be granted, so the request succeeds above its limit")
}
