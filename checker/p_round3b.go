package main

// Rules added after the third round of seeded changes (second file).

import (
	"fmt"
	"go/ast"
	"go/token"
	"go/types"
	"strings"
)

func init() {
	addRules("C12", rulesC12VarintRoom)
	addRules("C13", rulesC13InflightKey)
	addRules("C23", rulesC23ReturnedErrorsNotPooled)
}

// C23: the status of a request is computed by the caller from the error fanoutForward returns — after
// fanoutForward's deferred clean-up ran. Whatever that error references must therefore not be handed to a
// pool by that clean-up: the next request would reset and refill the objects, and this request's status would
// be computed from another request's replica outcomes.
func rulesC23ReturnedErrorsNotPooled(c *Ctx) {
	const rel, rule = "pkg/receive", "returned-errors-not-pooled"
	c.Rule(rule, "nothing reachable from a returned value is put into a pool by the same function", 1)
	p := c.Load("pkg/receive")
	if p == nil {
		return
	}
	checked := 0
	for _, fn := range p.AllFuncs(true) {
		if !strings.HasSuffix(fn.Pkg.PkgPath, rel) || strings.HasSuffix(p.Fset.Position(fn.Decl.Pos()).Filename, "_test.go") {
			continue
		}
		info := fn.Info()
		// pooled roots: v in X.Put(v) / X.Put(v[:0]) where X is a pool and v can alias (pointer-like elements)
		type put struct {
			obj  types.Object
			call *ast.CallExpr
		}
		var puts []put
		ast.Inspect(fn.Body(), func(n ast.Node) bool {
			call, ok := n.(*ast.CallExpr)
			if !ok || len(call.Args) != 1 {
				return true
			}
			se, ok := unparen(call.Fun).(*ast.SelectorExpr)
			if !ok || se.Sel.Name != "Put" {
				return true
			}
			if t := info.TypeOf(se.X); t == nil || !strings.Contains(t.String(), "Pool") {
				return true
			}
			a := unparen(call.Args[0])
			for {
				if s, ok := a.(*ast.SliceExpr); ok {
					a = unparen(s.X)
					continue
				}
				break
			}
			id, ok := a.(*ast.Ident)
			if !ok {
				return true
			}
			if o := objOf(info, id); o != nil && aliasingType(o.Type()) {
				puts = append(puts, put{o, call})
			}
			return true
		})
		if len(puts) == 0 {
			continue
		}
		checked++
		for _, pt := range puts {
			tainted := map[types.Object]bool{pt.obj: true}
			consts := constituentTypes(pt.obj.Type())
			external := map[types.Object]bool{} // receiver and parameters: not storage of this call
			if fn.Decl.Recv != nil {
				for _, f := range fn.Decl.Recv.List {
					for _, nm := range f.Names {
						external[info.Defs[nm]] = true
					}
				}
			}
			for _, f := range fn.Decl.Type.Params.List {
				for _, nm := range f.Names {
					external[info.Defs[nm]] = true
				}
			}
			isT := func(e ast.Expr) bool {
				hit := false
				ast.Inspect(e, func(n ast.Node) bool {
					if id, ok := n.(*ast.Ident); ok && tainted[objOf(info, id)] {
						hit = true
					}
					return !hit
				})
				return hit
			}
			mark := func(e ast.Expr) bool {
				if id, ok := unparen(e).(*ast.Ident); ok {
					if o := objOf(info, id); o != nil && !tainted[o] && !external[o] && canHold(o.Type(), consts, map[types.Type]bool{}) {
						tainted[o] = true
						return true
					}
				}
				return false
			}
			for changed := true; changed; {
				changed = false
				ast.Inspect(fn.Body(), func(n ast.Node) bool {
					switch v := n.(type) {
					case *ast.RangeStmt:
						if isT(v.X) && v.Value != nil && mark(v.Value) {
							changed = true
						}
					case *ast.AssignStmt:
						if len(v.Lhs) == len(v.Rhs) {
							for i, r := range v.Rhs {
								if isT(r) && mark(v.Lhs[i]) {
									changed = true
								}
							}
						}
					case *ast.CallExpr:
						// recv.M(..., tainted, ...) stores into recv (conservative)
						if se, ok := unparen(v.Fun).(*ast.SelectorExpr); ok && se.Sel.Name != "Put" {
							for _, a := range v.Args {
								if isT(a) && mark(se.X) {
									changed = true
								}
							}
						}
					}
					return true
				})
			}
			bad, where := "", p.Pos(pt.call.Pos())
			ast.Inspect(fn.Body(), func(n ast.Node) bool {
				if _, isLit := n.(*ast.FuncLit); isLit {
					return false
				}
				if r, ok := n.(*ast.ReturnStmt); ok {
					for _, e := range r.Results {
						if isT(e) {
							bad = "`" + stmtText(p, r) + "` (" + p.Pos(r.Pos()) + ") returns a value that references `" + pt.obj.Name() + "`, which `" + stmtText(p, pt.call) + "` hands to a pool"
						}
					}
				}
				return true
			})
			c.Check(bad == "", rule, rel+"."+fn.Name+"#"+canon(pt.call.Fun), where, "pooled-object-escapes",
				bad+": the caller reads the returned error after the pool got the objects back, so a concurrent request can reset and refill them and this request's status is computed from another request's replica outcomes")
		}
	}
	if checked == 0 {
		c.Incomplete(rule, rel, "", "no function that returns objects to a pool found")
	}
}

// constituentTypes lists t and every reference type nested in it (what a holder must be able to store in order
// to share storage with a value of type t).
func constituentTypes(t types.Type) []types.Type {
	var out []types.Type
	seen := map[types.Type]bool{}
	var rec func(t types.Type)
	rec = func(t types.Type) {
		if t == nil || seen[t] {
			return
		}
		seen[t] = true
		switch u := t.Underlying().(type) {
		case *types.Pointer:
			out = append(out, t)
			rec(u.Elem())
		case *types.Map:
			out = append(out, t)
			rec(u.Key())
			rec(u.Elem())
		case *types.Slice:
			out = append(out, t)
			rec(u.Elem())
		case *types.Chan:
			out = append(out, t)
			rec(u.Elem())
		case *types.Array:
			rec(u.Elem())
		case *types.Struct:
			for i := 0; i < u.NumFields(); i++ {
				rec(u.Field(i).Type())
			}
		}
	}
	rec(t)
	return out
}

// canHold reports whether a value of type t can store (a reference to) a value of one of the given types.
func canHold(t types.Type, consts []types.Type, seen map[types.Type]bool) bool {
	if t == nil || seen[t] {
		return false
	}
	seen[t] = true
	for _, c := range consts {
		if types.Identical(t, c) {
			return true
		}
	}
	switch u := t.Underlying().(type) {
	case *types.Interface:
		for _, c := range consts {
			if types.Implements(c, u) {
				return true
			}
		}
	case *types.Pointer:
		return canHold(u.Elem(), consts, seen)
	case *types.Slice:
		return canHold(u.Elem(), consts, seen)
	case *types.Array:
		return canHold(u.Elem(), consts, seen)
	case *types.Chan:
		return canHold(u.Elem(), consts, seen)
	case *types.Map:
		return canHold(u.Key(), consts, seen) || canHold(u.Elem(), consts, seen)
	case *types.Struct:
		for i := 0; i < u.NumFields(); i++ {
			if canHold(u.Field(i).Type(), consts, seen) {
				return true
			}
		}
	}
	return false
}

// aliasingType: values of the type share storage when copied (pointers, maps, channels, interfaces, and slices /
// arrays of such; a slice of plain values shares its array too but its elements are copied out by value).
func aliasingType(t types.Type) bool {
	switch u := t.Underlying().(type) {
	case *types.Pointer, *types.Map, *types.Chan, *types.Interface, *types.Signature:
		return true
	case *types.Slice:
		return aliasingType(u.Elem())
	case *types.Array:
		return aliasingType(u.Elem())
	}
	return false
}

// C12: every varint write of the postings encoders has room for the widest value it can be given. A delta of
// two 64-bit series references takes up to binary.MaxVarintLen64 bytes; PutUvarint panics when the destination
// is shorter, so a destination with less proven room makes a sparse list un-encodable.
func rulesC12VarintRoom(c *Ctx) {
	const rel, rule = "pkg/store", "varint-write-has-room"
	c.Rule(rule, "the destination of every PutUvarint in the postings encoders has provable room for the value's width", 2)
	p := c.Load("pkg/store")
	if p == nil {
		return
	}
	for _, fn := range p.AllFuncs(true) {
		if !strings.HasSuffix(fn.Pkg.PkgPath, rel) {
			continue
		}
		file := p.Fset.Position(fn.Decl.Pos()).Filename
		if !strings.HasSuffix(file, "/postings_codec.go") && !strings.HasSuffix(file, "/postings.go") {
			continue
		}
		info := fn.Info()
		n := 0
		ast.Inspect(fn.Body(), func(nd ast.Node) bool {
			call, ok := nd.(*ast.CallExpr)
			if !ok || len(call.Args) != 2 {
				return true
			}
			f := calleeOf(info, call)
			if f == nil || f.Pkg() == nil || f.Pkg().Path() != "encoding/binary" || (f.Name() != "PutUvarint" && f.Name() != "PutVarint") {
				return true
			}
			n++
			need := varintWidth(info, call.Args[1])
			room, how := varintRoom(p, fn, call, call.Args[0])
			construct := fmt.Sprintf("%s.%s#%s", rel, fn.Name, f.Name())
			if n > 1 {
				construct += fmt.Sprintf("#%d", n)
			}
			switch {
			case room < 0:
				c.Incomplete(rule, construct, p.Pos(call.Pos()), "room of `"+canon(call.Args[0])+"` not determined: "+how)
			default:
				c.Check(room >= need, rule, construct, p.Pos(call.Pos()), "varint-destination-too-short",
					fmt.Sprintf("`%s` writes a value of up to %d bytes into `%s`, for which only %d bytes are guaranteed (%s): PutUvarint panics on a large delta, so a sparse postings list cannot be encoded", stmtText(p, call), need, canon(call.Args[0]), room, how))
			}
			return true
		})
	}
}

// varintWidth: the widest encoding of the value: 10 bytes for 64-bit operands, 5 for 32-bit, 3 for 16-bit.
func varintWidth(info *types.Info, e ast.Expr) int64 {
	e = unparen(e)
	if call, ok := e.(*ast.CallExpr); ok && len(call.Args) == 1 {
		if tv, ok := info.Types[call.Fun]; ok && tv.IsType() {
			e = unparen(call.Args[0]) // width of the converted operand
		}
	}
	if v, ok := constInt(info, e); ok {
		switch {
		case v >= 0 && v < 1<<7:
			return 1
		case v >= 0 && v < 1<<14:
			return 2
		}
	}
	if t := info.TypeOf(e); t != nil {
		if b, ok := t.Underlying().(*types.Basic); ok {
			switch b.Kind() {
			case types.Uint8, types.Int8:
				return 2
			case types.Uint16, types.Int16:
				return 3
			case types.Uint32, types.Int32:
				return 5
			}
		}
	}
	return 10
}

// varintRoom returns the number of bytes the destination is known to have, or -1.
func varintRoom(p *Prog, fn *Fn, at ast.Node, dst ast.Expr) (int64, string) {
	info := fn.Info()
	dst = unparen(dst)
	if se, ok := dst.(*ast.SliceExpr); ok {
		if se.High != nil || se.Max != nil {
			return -1, "a bounded reslice"
		}
		if se.Low == nil {
			if t := info.TypeOf(se.X); t != nil {
				if a, ok := t.Underlying().(*types.Array); ok {
					return a.Len(), "array length"
				}
			}
			return varintRoom(p, fn, at, se.X)
		}
		// buf[off:]: a dominating test of the remaining room `len(buf)-off < K` (flush) or `>= K`
		want := "len(" + canon(se.X) + ")-" + canon(se.Low)
		best, how := int64(-1), "no test of "+want+" before the write"
		check := func(cond ast.Expr, pol bool) {
			be, ok := unparen(cond).(*ast.BinaryExpr)
			if !ok || canon(be.X) != want {
				return
			}
			k, ok := constInt(info, be.Y)
			if !ok {
				return
			}
			switch {
			case be.Op == token.LSS && !pol, be.Op == token.GEQ && pol:
				best, how = k, "room test `"+canon(cond)+"`"
			case be.Op == token.LEQ && !pol, be.Op == token.GTR && pol:
				best, how = k+1, "room test `"+canon(cond)+"`"
			}
		}
		for _, g := range guardsOf(p, fn, at) {
			check(g.Cond, g.Pol)
		}
		// `if len(buf)-off < K { flush }` earlier in the same block: afterwards at least K bytes are free,
		// provided the branch makes room (assumed: it is the flush)
		for par, child := p.ParentOf(fn.Pkg, at), at; par != nil; par, child = p.ParentOf(fn.Pkg, par), par {
			if blk, ok := par.(*ast.BlockStmt); ok {
				for _, st := range blk.List {
					if st == child || st.Pos() >= child.Pos() {
						break
					}
					if is, ok := st.(*ast.IfStmt); ok && is.Else == nil {
						check(is.Cond, false)
					}
				}
			}
			if par == fn.Node() {
				break
			}
		}
		return best, how
	}
	// a buffer allocated with a constant length
	var o types.Object
	switch v := dst.(type) {
	case *ast.Ident:
		o = objOf(info, v)
	case *ast.SelectorExpr:
		o = info.Uses[v.Sel]
	}
	if o == nil {
		return -1, "not a variable"
	}
	best, how := int64(-1), "no allocation with a constant length found"
	found := false
	visit := func(in *types.Info, lhs, rhs ast.Expr) {
		var lo types.Object
		switch v := unparen(lhs).(type) {
		case *ast.Ident:
			lo = objOf(in, v)
		case *ast.SelectorExpr:
			lo = in.Uses[v.Sel]
		}
		if lo != o {
			return
		}
		call, ok := unparen(rhs).(*ast.CallExpr)
		if ok {
			if id, ok := unparen(call.Fun).(*ast.Ident); ok && id.Name == "make" && len(call.Args) >= 2 {
				if k, ok := constInt(in, call.Args[1]); ok {
					if !found || k < best {
						best, how = k, "allocated as `"+canon(rhs)+"`"
					}
					found = true
					return
				}
			}
		}
		best, how, found = -1, "assigned `"+canon(rhs)+"`", true
	}
	for _, pk := range p.Roots {
		if pk != fn.Pkg {
			continue
		}
		for _, f := range pk.Syntax {
			ast.Inspect(f, func(n ast.Node) bool {
				switch v := n.(type) {
				case *ast.AssignStmt:
					if len(v.Lhs) == len(v.Rhs) {
						for i := range v.Lhs {
							if best >= 0 || !found {
								visit(pk.TypesInfo, v.Lhs[i], v.Rhs[i])
							}
						}
					}
				case *ast.KeyValueExpr:
					if id, ok := v.Key.(*ast.Ident); ok && pk.TypesInfo.Uses[id] == o {
						if best >= 0 || !found {
							visit(pk.TypesInfo, &ast.SelectorExpr{X: ast.NewIdent("_"), Sel: id}, v.Value)
						}
					}
				}
				return true
			})
		}
	}
	return best, how
}

// C13: the matchers cache deduplicates concurrent conversions by key: the in-flight (singleflight) key is the
// same string the LRU is read and filled with. A narrower in-flight key hands one matcher's conversion to a
// concurrent lookup of a different matcher.
func rulesC13InflightKey(c *Ctx) {
	const rel, rule = "pkg/store/cache", "inflight-key-is-cache-key"
	c.Rule(rule, "singleflight, LRU lookup and LRU fill of the matchers cache use the same key", 1)
	p := c.Load("pkg/store/cache")
	if p == nil {
		return
	}
	fn := p.Func(rel, "LruMatchersCache", "GetOrSet")
	construct := rel + ".(*LruMatchersCache).GetOrSet"
	if fn == nil {
		c.Incomplete(rule, construct, "", "function not found")
		return
	}
	info := fn.Info()
	// the key: first result of cacheKey(m)
	keyName := lhsOfCallTo(fn, "cacheKey", 0)
	if keyName == "" {
		c.Incomplete(rule, construct, p.Pos(fn.Decl.Pos()), "no `key, err := cacheKey(m)` found")
		return
	}
	bad, where, uses := "", p.Pos(fn.Decl.Pos()), 0
	ast.Inspect(fn.Body(), func(n ast.Node) bool {
		call, ok := n.(*ast.CallExpr)
		if !ok || len(call.Args) == 0 {
			return true
		}
		se, ok := unparen(call.Fun).(*ast.SelectorExpr)
		if !ok {
			return true
		}
		f := calleeOf(info, call)
		if f == nil {
			return true
		}
		recvT := info.TypeOf(se.X)
		keyed := false
		switch {
		case f.Name() == "Do" && recvT != nil && strings.Contains(recvT.String(), "singleflight"):
			keyed = true
		case (f.Name() == "Get" || f.Name() == "Add" || f.Name() == "Peek" || f.Name() == "Contains") && recvT != nil && strings.Contains(recvT.String(), "lru"):
			keyed = true
		}
		if !keyed {
			return true
		}
		uses++
		if canon(call.Args[0]) != keyName {
			bad, where = "`"+canon(call.Fun)+"` is keyed by `"+canon(call.Args[0])+"`, not by the cache key `"+keyName+"`", p.Pos(call.Pos())
		}
		return true
	})
	if uses < 3 && bad == "" {
		bad = fmt.Sprintf("%d keyed operations found, want the in-flight call, the lookup and the fill", uses)
	}
	c.Check(bad == "", rule, construct, where, "inflight-key-differs",
		bad+": two concurrent lookups of different matchers that agree on that narrower key share one conversion, and the second caller is answered with the first one's matcher")
}
