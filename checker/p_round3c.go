package main

// Rules added after the third round of seeded changes (third file: C22 C24 C25 C26 C27 C29 C30).

import (
	"fmt"
	"go/ast"
	"go/token"
	"go/types"
	"sort"
	"strings"
)

func init() {
	addRules("C22", rulesC22TimeoutIsAnError)
	addRules("C24", rulesC24GateWrappersPair)
	addRules("C25", rulesC25BothFlavoursDecoded)
	addRules("C26", rulesC26EveryEntryTranslated)
	addRules("C27", rulesC27NoVerdictInsideScan)
	addRules("C29", rulesC29AgeFallback)
	addRules("C30", rulesC30NewestDropped)
}

// C22: when the request context ends while responses are outstanding, fanoutForward has not seen a quorum for
// every series: it must fail. Every return in the `<-ctx.Done()` arm of the response loop carries the context's
// error (possibly wrapped); a value that can be nil (ErrOrNil of the errors gathered so far) acknowledges a write
// that was stored on fewer than a quorum of replicas.
func rulesC22TimeoutIsAnError(c *Ctx) {
	const rel, rule = "pkg/receive", "timeout-is-an-error"
	c.Rule(rule, "the context-done arm of the quorum loop returns the context's error", 1)
	p := c.Load("pkg/receive")
	if p == nil {
		return
	}
	fn := p.Func(rel, "Handler", "fanoutForward")
	construct := rel + ".(*Handler).fanoutForward"
	if fn == nil {
		c.Incomplete(rule, construct, "", "function not found")
		return
	}
	info := fn.Info()
	arms := 0
	bad, where := "", p.Pos(fn.Decl.Pos())
	ast.Inspect(fn.Body(), func(n ast.Node) bool {
		if _, ok := n.(*ast.FuncLit); ok {
			return false
		}
		cc, ok := n.(*ast.CommClause)
		if !ok || cc.Comm == nil {
			return true
		}
		// `case <-ctx.Done():`
		es, ok := cc.Comm.(*ast.ExprStmt)
		if !ok {
			return true
		}
		u, ok := unparen(es.X).(*ast.UnaryExpr)
		if !ok || u.Op != token.ARROW {
			return true
		}
		call, ok := unparen(u.X).(*ast.CallExpr)
		if !ok {
			return true
		}
		se, ok := unparen(call.Fun).(*ast.SelectorExpr)
		if !ok || se.Sel.Name != "Done" || !isNamed(info.TypeOf(se.X), "context", "Context") {
			return true
		}
		arms++
		ctxName := canon(se.X)
		rets := 0
		for _, st := range cc.Body {
			ast.Inspect(st, func(m ast.Node) bool {
				if _, ok := m.(*ast.FuncLit); ok {
					return false
				}
				r, ok := m.(*ast.ReturnStmt)
				if !ok || len(r.Results) == 0 {
					return true
				}
				rets++
				last := r.Results[len(r.Results)-1]
				txt := canon(last)
				if id, ok := unparen(last).(*ast.Ident); ok {
					if o, ok := info.Uses[id].(*types.Var); ok {
						if d := singleDef(fn, info, o); d != nil {
							txt = canon(d)
						}
					}
				}
				if !isContextErr(info, last) && !strings.Contains(txt, ctxName+".Err()") && !strings.Contains(txt, "context.Cause("+ctxName+")") {
					bad, where = "`"+stmtText(p, r)+"` in the context-done arm does not return the context's error", p.Pos(r.Pos())
				}
				return true
			})
		}
		if rets == 0 && bad == "" {
			bad, where = "the context-done arm does not leave the loop with an error", p.Pos(cc.Pos())
		}
		return true
	})
	if arms == 0 {
		c.Incomplete(rule, construct, where, "no `case <-ctx.Done()` arm found in the response loop")
		return
	}
	c.Check(bad == "", rule, construct, where, "timeout-acknowledged",
		bad+": when no series has yet collected enough failures the value is nil, and a request whose replicas are still outstanding is acknowledged although it was stored on fewer than a write quorum")
}

// C24: the gate wrappers forward Start and Done one to one. A wrapper's Start returns nil only after the wrapped
// Start succeeded, never calls Done (a request that did not get a slot has none to give back), and a wrapper's
// Done calls the wrapped Done on every path.
func rulesC24GateWrappersPair(c *Ctx) {
	const rel, rule = "pkg/gate", "gate-wrappers-pair-start-and-done"
	c.Rule(rule, "every Gate wrapper forwards Start and Done one to one and releases nothing on a failed Start", 6)
	p := c.Load("pkg/gate")
	if p == nil {
		return
	}
	isGate := func(t types.Type) bool { return t != nil && isNamed(t, "pkg/gate", "Gate") }
	for _, fn := range p.AllFuncs(true) {
		if !strings.HasSuffix(fn.Pkg.PkgPath, rel) || fn.Decl.Recv == nil || (fn.Decl.Name.Name != "Start" && fn.Decl.Name.Name != "Done") {
			continue
		}
		info := fn.Info()
		// a wrapper: the receiver's struct has a field of type Gate
		rt := info.TypeOf(fn.Decl.Recv.List[0].Type)
		if ptr, ok := rt.(*types.Pointer); ok {
			rt = ptr.Elem()
		}
		st, ok := rt.Underlying().(*types.Struct)
		if !ok {
			continue
		}
		wraps := false
		for i := 0; i < st.NumFields(); i++ {
			if isGate(st.Field(i).Type()) {
				wraps = true
			}
		}
		if !wraps {
			continue
		}
		construct := rel + "." + fn.Name
		innerCall := func(method string) func(*types.Info, *ast.CallExpr) bool {
			return func(i *types.Info, call *ast.CallExpr) bool {
				se, ok := unparen(call.Fun).(*ast.SelectorExpr)
				return ok && se.Sel.Name == method && isGate(i.TypeOf(se.X))
			}
		}
		if fn.Decl.Name.Name == "Start" {
			e := newE3(p, fn, []Ev{{Name: "inner", Match: innerCall("Start")}})
			bad, where := "", p.Pos(fn.Decl.Pos())
			for _, ex := range e.Exits() {
				if ex.Panic || ex.Ret == nil || len(ex.Ret.Results) != 1 {
					continue
				}
				b := ex.Bits["inner"]
				if isNilIdent(ex.Ret.Results[0]) && b&^eOK != 0 {
					bad, where = "Start returns nil where the wrapped Start is "+evBitsString(b), ex.Pos
				}
			}
			if len(e.Calls("inner")) == 0 {
				bad = "the wrapped gate's Start is not called"
			}
			// no Done of any kind inside Start
			ast.Inspect(fn.Body(), func(n ast.Node) bool {
				call, ok := n.(*ast.CallExpr)
				if !ok {
					return true
				}
				if se, ok := unparen(call.Fun).(*ast.SelectorExpr); ok && se.Sel.Name == "Done" && len(call.Args) == 0 {
					t := info.TypeOf(se.X)
					if isGate(t) || (t != nil && types.Identical(derefType(t), derefType(info.TypeOf(fn.Decl.Recv.List[0].Type)))) {
						bad, where = "`"+stmtText(p, call)+"` inside Start releases a slot of the wrapped gate that this request never got", p.Pos(call.Pos())
					}
				}
				return true
			})
			c.Check(bad == "", rule, construct, where, "start-done-unpaired",
				bad+": a request that gives up while queued at a full gate frees a slot held by a request still being written — more than the configured number run concurrently, and the surplus Done later panics")
			continue
		}
		e := newE3(p, fn, []Ev{{Name: "inner", Match: innerCall("Done")}})
		bad, where := "", p.Pos(fn.Decl.Pos())
		for _, ex := range e.Exits() {
			if ex.Panic {
				continue
			}
			if b := ex.Bits["inner"]; b&eNo != 0 {
				bad, where = "Done can return without calling the wrapped Done "+evBitsString(b), ex.Pos
			}
		}
		c.Check(bad == "", rule, construct, where, "done-not-forwarded", bad+": the slot is never given back and the gate fills up")
	}
}

func derefType(t types.Type) types.Type {
	if t == nil {
		return nil
	}
	if p, ok := t.(*types.Pointer); ok {
		return p.Elem()
	}
	return t
}

func isNilIdent(e ast.Expr) bool {
	id, ok := unparen(e).(*ast.Ident)
	return ok && id.Name == "nil"
}

// C25: the integer and the float flavour of a native histogram are decoded into two sibling structs; both set the
// same fields. A field set for one flavour only (the counter-reset hint, a span list) is silently lost for the other.
func rulesC25BothFlavoursDecoded(c *Ctx) {
	const rel, rule = "pkg/receive/writecapnp", "both-histogram-flavours-fully-decoded"
	c.Rule(rule, "readHistogram sets the same fields on histogram.Histogram and histogram.FloatHistogram", 1)
	p := c.Load("pkg/receive/writecapnp")
	if p == nil {
		return
	}
	fn := p.Func(rel, "Request", "readHistogram")
	construct := rel + ".(*Request).readHistogram"
	if fn == nil {
		c.Incomplete(rule, construct, "", "function not found")
		return
	}
	info := fn.Info()
	sets := map[string]map[string]bool{"Histogram": {}, "FloatHistogram": {}}
	which := func(t types.Type) string {
		for k := range sets {
			if t != nil && isNamed(t, "model/histogram", k) {
				return k
			}
		}
		return ""
	}
	ast.Inspect(fn.Body(), func(n ast.Node) bool {
		switch v := n.(type) {
		case *ast.CompositeLit:
			if k := which(info.TypeOf(v)); k != "" {
				for _, el := range v.Elts {
					if kv, ok := el.(*ast.KeyValueExpr); ok {
						sets[k][canon(kv.Key)] = true
					}
				}
			}
		case *ast.AssignStmt:
			for _, l := range v.Lhs {
				if se, ok := unparen(l).(*ast.SelectorExpr); ok {
					if k := which(info.TypeOf(se.X)); k != "" {
						sets[k][se.Sel.Name] = true
					}
				}
			}
		}
		return true
	})
	var only []string
	for f := range sets["Histogram"] {
		if !sets["FloatHistogram"][f] {
			only = append(only, "FloatHistogram."+f+" is never set (Histogram."+f+" is)")
		}
	}
	for f := range sets["FloatHistogram"] {
		if !sets["Histogram"][f] {
			only = append(only, "Histogram."+f+" is never set (FloatHistogram."+f+" is)")
		}
	}
	sort.Strings(only)
	bad := strings.Join(only, "; ")
	if bad == "" && len(sets["Histogram"]) < 8 {
		bad = fmt.Sprintf("only %d fields of the decoded histogram are set", len(sets["Histogram"]))
	}
	c.Check(bad == "", rule, construct, p.Pos(fn.Decl.Pos()), "flavour-field-missing",
		bad+": that part of every histogram of the one flavour is lost in replication while the other flavour (and the tests, which use default values) look fine")
}

// C26: every entry of a remote-write 2.0 request is translated: the loops over the request's series, samples,
// exemplars and histograms have no `continue` / `break` — an entry is appended or the request is rejected.
func rulesC26EveryEntryTranslated(c *Ctx) {
	const rel, rule = "pkg/receive", "every-v2-entry-translated"
	c.Rule(rule, "the translation loops over a v2 request skip nothing", 4)
	p := c.Load("pkg/receive")
	if p == nil {
		return
	}
	fn := p.Func(rel, "", "translateV2ToV1")
	construct := rel + ".translateV2ToV1"
	if fn == nil {
		c.Incomplete(rule, construct, "", "function not found")
		return
	}
	info := fn.Info()
	// values derived from the request parameter: the parameter and range variables over its parts
	derived := map[types.Object]bool{}
	for _, f := range fn.Decl.Type.Params.List {
		for _, nm := range f.Names {
			derived[info.Defs[nm]] = true
		}
	}
	rooted := func(e ast.Expr) bool {
		for {
			switch v := unparen(e).(type) {
			case *ast.SelectorExpr:
				e = v.X
			case *ast.IndexExpr:
				e = v.X
			case *ast.Ident:
				return derived[objOf(info, v)]
			default:
				return false
			}
		}
	}
	var loops []*ast.RangeStmt
	ast.Inspect(fn.Body(), func(n ast.Node) bool {
		if r, ok := n.(*ast.RangeStmt); ok && rooted(r.X) {
			loops = append(loops, r)
			if id, ok := r.Value.(*ast.Ident); ok {
				derived[info.Defs[id]] = true
			}
		}
		return true
	})
	for i, lp := range loops {
		bad, where := "", p.Pos(lp.Pos())
		var walk func(n ast.Node, inSwitch bool)
		walk = func(n ast.Node, inSwitch bool) {
			ast.Inspect(n, func(m ast.Node) bool {
				switch v := m.(type) {
				case *ast.FuncLit:
					return false
				case *ast.ForStmt, *ast.RangeStmt:
					if m != n {
						return false // branch statements inside belong to the inner loop (checked on its own when it ranges over the request)
					}
				case *ast.SwitchStmt, *ast.TypeSwitchStmt, *ast.SelectStmt:
					if m != n {
						walk(m, true)
						return false
					}
				case *ast.BranchStmt:
					if v.Label != nil {
						bad, where = "`"+v.Tok.String()+" "+v.Label.Name+"`", p.Pos(v.Pos())
					} else if v.Tok == token.CONTINUE || (v.Tok == token.BREAK && !inSwitch) {
						bad, where = "`"+v.Tok.String()+"`", p.Pos(v.Pos())
					}
				}
				return true
			})
		}
		walk(lp.Body, false)
		if bad != "" {
			bad += " in the loop over " + canon(lp.X) + " skips entries of the request"
		}
		c.Check(bad == "", rule, fmt.Sprintf("%s#loop%d:%s", construct, i+1, shortSel(lp.X)), where, "v2-entry-skipped",
			bad+": the skipped part (e.g. an entry carrying only exemplars) is neither ingested nor rejected, while the response headers count it as written")
	}
	if len(loops) == 0 {
		c.Incomplete(rule, construct, p.Pos(fn.Decl.Pos()), "no loop over the request found")
	}
}

func shortSel(e ast.Expr) string {
	if se, ok := unparen(e).(*ast.SelectorExpr); ok {
		return se.Sel.Name
	}
	return canon(e)
}

// C27: whether a tenant matches a hashring's tenant set must not depend on the iteration order of the set: inside
// the scan over the patterns the only verdicts are "matches" and an error; "does not match" is returned after the scan.
func rulesC27NoVerdictInsideScan(c *Ctx) {
	const rel, rule = "pkg/receive", "no-match-only-after-all-patterns"
	c.Rule(rule, "inside the scan over a tenant set only a positive match or an error ends the scan", 1)
	p := c.Load("pkg/receive")
	if p == nil {
		return
	}
	fn := p.Func(rel, "tenantSet", "match")
	construct := rel + ".tenantSet.match"
	if fn == nil {
		c.Incomplete(rule, construct, "", "function not found")
		return
	}
	info := fn.Info()
	var recv types.Object
	if fn.Decl.Recv != nil && len(fn.Decl.Recv.List[0].Names) == 1 {
		recv = info.Defs[fn.Decl.Recv.List[0].Names[0]]
	}
	var scan *ast.RangeStmt
	ast.Inspect(fn.Body(), func(n ast.Node) bool {
		if r, ok := n.(*ast.RangeStmt); ok {
			if id, ok := unparen(r.X).(*ast.Ident); ok && recv != nil && objOf(info, id) == recv {
				scan = r
			}
		}
		return true
	})
	if scan == nil {
		c.Incomplete(rule, construct, p.Pos(fn.Decl.Pos()), "no scan over the tenant set found")
		return
	}
	bad, where := "", p.Pos(scan.Pos())
	var walk func(n ast.Node, inSwitch bool)
	walk = func(n ast.Node, inSwitch bool) {
		ast.Inspect(n, func(m ast.Node) bool {
			switch v := m.(type) {
			case *ast.FuncLit:
				return false
			case *ast.SwitchStmt, *ast.TypeSwitchStmt, *ast.SelectStmt:
				if m != n {
					walk(m, true)
					return false
				}
			case *ast.BranchStmt:
				if v.Tok == token.BREAK && (!inSwitch || v.Label != nil) {
					bad, where = "`break` ends the scan before every pattern was tried", p.Pos(v.Pos())
				}
			case *ast.ReturnStmt:
				if len(v.Results) == 2 && isNilIdent(v.Results[1]) {
					if tv, ok := info.Types[v.Results[0]]; !ok || tv.Value == nil || tv.Value.String() != "true" {
						bad, where = "`"+stmtText(p, v)+"` ends the scan with a verdict that can be \"no match\"", p.Pos(v.Pos())
					}
				}
			}
			return true
		})
	}
	walk(scan.Body, false)
	c.Check(bad == "", rule, construct, where, "scan-ends-on-non-match",
		bad+": the set is a map, so whether a later pattern is tried depends on the iteration order — the same tenant is assigned to this hashring on one instance (or after a restart) and to a later one elsewhere")
}

// C29: the age of a partial upload decides whether the clean-up deletes it. The caller of getOldestModifiedTime
// uses the returned time even when an error is returned (it only logs the error), so every error return carries
// the block's creation time from its ULID — never the zero time, which makes every block look infinitely old.
func rulesC29AgeFallback(c *Ctx) {
	const rel, rule = "pkg/compact", "partial-upload-age-falls-back-to-ulid-time"
	c.Rule(rule, "every error return of getOldestModifiedTime carries the ULID time (the caller uses the time regardless)", 1)
	p := c.Load("pkg/compact")
	if p == nil {
		return
	}
	fn := p.Func(rel, "", "getOldestModifiedTime")
	caller := p.Func(rel, "", "BestEffortCleanAbortedPartialUploads")
	construct := rel + ".getOldestModifiedTime"
	if fn == nil || caller == nil {
		c.Incomplete(rule, construct, "", "getOldestModifiedTime / BestEffortCleanAbortedPartialUploads not found")
		return
	}
	// does the caller go on with the time after an error?
	cinfo := caller.Info()
	usesOnError := true
	ast.Inspect(caller.Body(), func(n ast.Node) bool {
		is, ok := n.(*ast.IfStmt)
		if !ok {
			return true
		}
		x, nonNil, ok := nilTest(cinfo, is.Cond)
		if !ok || !nonNil || !isErrorType(cinfo.TypeOf(x)) {
			return true
		}
		// is this the error of the getOldestModifiedTime call? look at the preceding statement
		par, _ := p.ParentOf(caller.Pkg, is).(*ast.BlockStmt)
		if par == nil {
			return true
		}
		for i, st := range par.List {
			if st != ast.Stmt(is) || i == 0 {
				continue
			}
			as, ok := par.List[i-1].(*ast.AssignStmt)
			if !ok || len(as.Rhs) != 1 {
				continue
			}
			call, ok := unparen(as.Rhs[0]).(*ast.CallExpr)
			if !ok {
				continue
			}
			if f := calleeOf(cinfo, call); f == nil || f.Name() != "getOldestModifiedTime" {
				continue
			}
			if len(is.Body.List) > 0 {
				switch last := is.Body.List[len(is.Body.List)-1].(type) {
				case *ast.BranchStmt:
					usesOnError = last.Tok != token.CONTINUE && last.Tok != token.BREAK
				case *ast.ReturnStmt:
					usesOnError = false
				}
			}
		}
		return true
	})
	if !usesOnError {
		c.Check(true, rule, construct, p.Pos(fn.Decl.Pos()), "", "")
		return
	}
	info := fn.Info()
	var idParam string
	for _, f := range fn.Decl.Type.Params.List {
		if t := info.TypeOf(f.Type); t != nil && strings.HasSuffix(t.String(), "ulid/v2.ULID") || strings.HasSuffix(t.String(), "ulid.ULID") {
			if len(f.Names) == 0 {
				continue
			}
			idParam = f.Names[0].Name
		}
	}
	bad, where, n := "", p.Pos(fn.Decl.Pos()), 0
	ast.Inspect(fn.Body(), func(m ast.Node) bool {
		if _, ok := m.(*ast.FuncLit); ok {
			return false
		}
		r, ok := m.(*ast.ReturnStmt)
		if !ok || len(r.Results) != 2 || isNilIdent(r.Results[1]) {
			return true
		}
		n++
		if txt := expandDefText(fn, info, r.Results[0]); idParam == "" || !strings.Contains(txt, idParam+".Time()") {
			bad, where = "`"+stmtText(p, r)+"` returns an error together with a time that is not the block's ULID time", p.Pos(r.Pos())
		}
		return true
	})
	if n == 0 && bad == "" {
		bad = "no error return found"
	}
	c.Check(bad == "", rule, construct, where, "age-fallback-lost",
		bad+": the clean-up only logs the error and compares the returned time with the partial-upload threshold; a zero time makes a block that is still being uploaded look older than the threshold, its files are deleted and the finished upload lists chunks that no longer exist")
}

// C30: the newest block of a group is left out of every plan. plan() keeps two lists — all blocks and the blocks
// not marked no-compact — and drops the newest block from both before planning by range and by tombstones. The
// statements that do this are interpreted on every small group (1–4 blocks, every marking): afterwards the first
// list is the input without its last block and the second is that list without the marked blocks.
func rulesC30NewestDropped(c *Ctx) {
	const rel, rule = "pkg/compact", "newest-block-dropped-from-both-lists"
	c.Rule(rule, "after the overlap check, plan() has removed the newest block from the full and from the not-excluded list", 1)
	p := c.Load("pkg/compact")
	if p == nil {
		return
	}
	fn := p.Func(rel, "tsdbBasedPlanner", "plan")
	construct := rel + ".(*tsdbBasedPlanner).plan"
	if fn == nil {
		c.Incomplete(rule, construct, "", "function not found")
		return
	}
	info := fn.Info()
	var markParam, metasParam string
	for _, f := range fn.Decl.Type.Params.List {
		t := info.TypeOf(f.Type)
		if len(f.Names) == 0 {
			continue
		}
		switch t.Underlying().(type) {
		case *types.Map:
			markParam = f.Names[0].Name
		case *types.Slice:
			metasParam = f.Names[0].Name
		}
	}
	// the not-excluded list: the slice appended to inside the first loop over the metas
	notExcl := ""
	var region []ast.Stmt
	var selCall *ast.CallExpr
	state := 0
	for _, st := range fn.Decl.Body.List {
		switch state {
		case 0:
			if r, ok := st.(*ast.RangeStmt); ok && canon(r.X) == metasParam {
				ast.Inspect(r.Body, func(n ast.Node) bool {
					if as, ok := n.(*ast.AssignStmt); ok && len(as.Lhs) == 1 && len(as.Rhs) == 1 {
						if call, ok := unparen(as.Rhs[0]).(*ast.CallExpr); ok {
							if id, ok := call.Fun.(*ast.Ident); ok && id.Name == "append" {
								notExcl = canon(as.Lhs[0])
							}
						}
					}
					return true
				})
				state = 1
			}
		case 1:
			// skip up to and including the overlap check `if len(res) > 0 { return … }`
			if is, ok := st.(*ast.IfStmt); ok && len(is.Body.List) == 1 {
				if _, isRet := is.Body.List[0].(*ast.ReturnStmt); isRet {
					state = 2
				}
			}
		case 2:
			found := false
			ast.Inspect(st, func(n ast.Node) bool {
				if call, ok := n.(*ast.CallExpr); ok {
					if f := calleeOf(info, call); f != nil && f.Name() == "selectMetas" {
						selCall, found = call, true
					}
				}
				return true
			})
			if found {
				state = 3
			} else {
				region = append(region, st)
			}
		}
	}
	if markParam == "" || metasParam == "" || notExcl == "" || selCall == nil || len(selCall.Args) != 3 {
		c.Incomplete(rule, construct, p.Pos(fn.Decl.Pos()), fmt.Sprintf("anchors not found (marks=%q metas=%q not-excluded=%q range planning call=%v)", markParam, metasParam, notExcl, selCall != nil))
		return
	}
	bad := ""
	for n := 1; n <= 4 && bad == ""; n++ {
		for mask := 0; mask < 1<<n && bad == ""; mask++ {
			ev := &c30Eval{info: info, marks: markParam, excluded: map[int64]bool{}, env: map[string]c30Val{}}
			var all, ne []int64
			for i := 0; i < n; i++ {
				all = append(all, int64(i))
				if mask&(1<<i) != 0 {
					ev.excluded[int64(i)] = true
				} else {
					ne = append(ne, int64(i))
				}
			}
			ev.env[metasParam] = c30Val{k: 'l', l: all}
			ev.env[notExcl] = c30Val{k: 'l', l: ne}
			if err := ev.run(region); err != nil {
				c.Incomplete(rule, construct, p.Pos(fn.Decl.Pos()), "statement not interpreted: "+err.Error())
				return
			}
			arg, err := ev.eval(selCall.Args[2])
			if err != nil {
				c.Incomplete(rule, construct, p.Pos(selCall.Pos()), "argument not interpreted: "+err.Error())
				return
			}
			var wantNE []int64
			for _, b := range all[:n-1] {
				if !ev.excluded[b] {
					wantNE = append(wantNE, b)
				}
			}
			desc := fmt.Sprintf("a group of %d blocks (oldest first) with no-compact marks on %v", n, markedOf(ev.excluded))
			if fmt.Sprint(arg.l) != fmt.Sprint(all[:n-1]) {
				bad = fmt.Sprintf("for %s range planning sees the blocks %v, want %v (everything but the newest)", desc, arg.l, all[:n-1])
			} else if got := ev.env[notExcl].l; fmt.Sprint(got) != fmt.Sprint(wantNE) {
				bad = fmt.Sprintf("for %s the not-excluded list is %v when the tombstone pass starts, want %v: block %d is the newest block of the group and must not be planned", desc, got, wantNE, n-1)
			}
		}
	}
	c.Check(bad == "", rule, construct, p.Pos(fn.Decl.Pos()), "newest-block-plannable", bad)
}

func markedOf(m map[int64]bool) []int64 {
	out := []int64{}
	for k, v := range m {
		if v {
			out = append(out, k)
		}
	}
	sort.Slice(out, func(i, j int) bool { return out[i] < out[j] })
	return out
}

// c30Eval interprets the few statement forms of plan()'s list trimming over lists of block numbers.
type c30Val struct {
	k byte // 'i' int / block, 'b' bool, 'l' list
	i int64
	b bool
	l []int64
}

type c30Eval struct {
	info     *types.Info
	marks    string
	excluded map[int64]bool
	env      map[string]c30Val
}

func (e *c30Eval) run(list []ast.Stmt) error {
	for _, st := range list {
		switch v := st.(type) {
		case *ast.AssignStmt:
			if err := e.assign(v); err != nil {
				return err
			}
		case *ast.IfStmt:
			if v.Init != nil {
				as, ok := v.Init.(*ast.AssignStmt)
				if !ok {
					return fmt.Errorf("if-init %T", v.Init)
				}
				if err := e.assign(as); err != nil {
					return err
				}
			}
			cv, err := e.eval(v.Cond)
			if err != nil {
				return err
			}
			if cv.k != 'b' {
				return fmt.Errorf("condition %s is not boolean", canon(v.Cond))
			}
			if cv.b {
				if err := e.run(v.Body.List); err != nil {
					return err
				}
			} else if v.Else != nil {
				switch el := v.Else.(type) {
				case *ast.BlockStmt:
					if err := e.run(el.List); err != nil {
						return err
					}
				case *ast.IfStmt:
					if err := e.run([]ast.Stmt{el}); err != nil {
						return err
					}
				}
			}
		case *ast.BlockStmt:
			if err := e.run(v.List); err != nil {
				return err
			}
		case *ast.EmptyStmt:
		default:
			return fmt.Errorf("%T", st)
		}
	}
	return nil
}

func (e *c30Eval) assign(as *ast.AssignStmt) error {
	// `_, ok := marks[k]`
	if len(as.Lhs) == 2 && len(as.Rhs) == 1 {
		ix, ok := unparen(as.Rhs[0]).(*ast.IndexExpr)
		if !ok || canon(ix.X) != e.marks {
			return fmt.Errorf("two-value assignment %s", canon(as.Rhs[0]))
		}
		k, err := e.eval(ix.Index)
		if err != nil {
			return err
		}
		if id, ok := as.Lhs[1].(*ast.Ident); ok && id.Name != "_" {
			e.env[id.Name] = c30Val{k: 'b', b: e.excluded[k.i]}
		}
		return nil
	}
	if len(as.Lhs) != 1 || len(as.Rhs) != 1 {
		return fmt.Errorf("assignment with %d targets", len(as.Lhs))
	}
	id, ok := unparen(as.Lhs[0]).(*ast.Ident)
	if !ok {
		return fmt.Errorf("assignment to %s", canon(as.Lhs[0]))
	}
	v, err := e.eval(as.Rhs[0])
	if err != nil {
		return err
	}
	if id.Name != "_" {
		e.env[id.Name] = v
	}
	return nil
}

func (e *c30Eval) eval(x ast.Expr) (c30Val, error) {
	x = unparen(x)
	if k, ok := constInt(e.info, x); ok {
		return c30Val{k: 'i', i: k}, nil
	}
	switch v := x.(type) {
	case *ast.Ident:
		switch v.Name {
		case "true":
			return c30Val{k: 'b', b: true}, nil
		case "false":
			return c30Val{k: 'b'}, nil
		}
		if val, ok := e.env[v.Name]; ok {
			return val, nil
		}
		return c30Val{}, fmt.Errorf("unknown variable %s", v.Name)
	case *ast.CallExpr:
		if id, ok := v.Fun.(*ast.Ident); ok && id.Name == "len" && len(v.Args) == 1 {
			a, err := e.eval(v.Args[0])
			if err != nil {
				return a, err
			}
			if a.k != 'l' {
				return a, fmt.Errorf("len of %s", canon(v.Args[0]))
			}
			return c30Val{k: 'i', i: int64(len(a.l))}, nil
		}
		return c30Val{}, fmt.Errorf("call %s", canon(v))
	case *ast.UnaryExpr:
		a, err := e.eval(v.X)
		if err != nil {
			return a, err
		}
		switch {
		case v.Op == token.NOT && a.k == 'b':
			return c30Val{k: 'b', b: !a.b}, nil
		case v.Op == token.SUB && a.k == 'i':
			return c30Val{k: 'i', i: -a.i}, nil
		}
		return a, fmt.Errorf("operator %s", v.Op)
	case *ast.BinaryExpr:
		a, err := e.eval(v.X)
		if err != nil {
			return a, err
		}
		if a.k == 'b' && (v.Op == token.LAND && !a.b || v.Op == token.LOR && a.b) {
			return a, nil
		}
		b, err := e.eval(v.Y)
		if err != nil {
			return b, err
		}
		if a.k == 'b' && b.k == 'b' && (v.Op == token.LAND || v.Op == token.LOR) {
			return b, nil
		}
		if a.k == 'i' && b.k == 'i' {
			switch v.Op {
			case token.ADD:
				return c30Val{k: 'i', i: a.i + b.i}, nil
			case token.SUB:
				return c30Val{k: 'i', i: a.i - b.i}, nil
			case token.LSS:
				return c30Val{k: 'b', b: a.i < b.i}, nil
			case token.LEQ:
				return c30Val{k: 'b', b: a.i <= b.i}, nil
			case token.GTR:
				return c30Val{k: 'b', b: a.i > b.i}, nil
			case token.GEQ:
				return c30Val{k: 'b', b: a.i >= b.i}, nil
			case token.EQL:
				return c30Val{k: 'b', b: a.i == b.i}, nil
			case token.NEQ:
				return c30Val{k: 'b', b: a.i != b.i}, nil
			}
		}
		return a, fmt.Errorf("operator %s on %s", v.Op, canon(v))
	case *ast.IndexExpr:
		l, err := e.eval(v.X)
		if err != nil {
			return l, err
		}
		i, err := e.eval(v.Index)
		if err != nil {
			return i, err
		}
		if l.k != 'l' || i.k != 'i' || i.i < 0 || i.i >= int64(len(l.l)) {
			return l, fmt.Errorf("index %s out of range (the interpreted group makes the code index an empty list)", canon(v))
		}
		return c30Val{k: 'i', i: l.l[i.i]}, nil
	case *ast.SelectorExpr:
		// block.ULID: the block's identity
		a, err := e.eval(v.X)
		if err != nil {
			return a, err
		}
		if a.k == 'i' && v.Sel.Name == "ULID" {
			return a, nil
		}
		return a, fmt.Errorf("selector %s", canon(v))
	case *ast.SliceExpr:
		l, err := e.eval(v.X)
		if err != nil {
			return l, err
		}
		if l.k != 'l' || v.Max != nil {
			return l, fmt.Errorf("slice of %s", canon(v.X))
		}
		lo, hi := int64(0), int64(len(l.l))
		if v.Low != nil {
			a, err := e.eval(v.Low)
			if err != nil {
				return a, err
			}
			lo = a.i
		}
		if v.High != nil {
			a, err := e.eval(v.High)
			if err != nil {
				return a, err
			}
			hi = a.i
		}
		if lo < 0 || hi > int64(len(l.l)) || lo > hi {
			return l, fmt.Errorf("slice bounds of %s out of range (the interpreted group makes the code reslice past an empty list)", canon(v))
		}
		return c30Val{k: 'l', l: append([]int64{}, l.l[lo:hi]...)}, nil
	}
	return c30Val{}, fmt.Errorf("expression %s", canon(x))
}
