package main

// Rules added after the third round of seeded changes (fourth file: C33 C40 C42 C43 C46 C47 C49).

import (
	"fmt"
	"go/ast"
	"go/token"
	"go/types"
	"strings"
)

func init() {
	addRules("C33", rulesC33ListingErrorsReturned)
	addRules("C40", rulesC40PositionReadAfterAdvance)
	addRules("C42", rulesC42ResolutionLevelFromRequest)
	addRules("C43", rulesC43TenantVerbatim)
	addRules("C46", rulesC46TrimAfterRelabel)
	addRules("C47", rulesC47HashCoversFullPath)
	addRules("C49", rulesC49JumpSequenceIndependentOfCount)
}

// C33: a listing that failed half way is not a view of the bucket. In both block listers the error of the
// top-level bucket iteration reaches the caller: the variable it is bound to is returned, or tested with a
// failing branch that returns a non-nil error. An error that is only stored (e.g. in a named result that the
// final `return x, nil` overrides) turns a truncated listing into a complete-looking one.
func rulesC33ListingErrorsReturned(c *Ctx) {
	const rel, rule = "pkg/block", "listing-error-reaches-caller"
	c.Rule(rule, "the error of every bucket iteration in the block listers is returned", 2)
	p := c.Load("pkg/block")
	if p == nil {
		return
	}
	iter := bucketMethod("Iter", "IterWithAttributes")
	for _, recv := range []string{"ConcurrentLister", "RecursiveLister"} {
		fn := p.Func(rel, recv, "GetActiveAndPartialBlockIDs")
		construct := rel + ".(*" + recv + ").GetActiveAndPartialBlockIDs"
		if fn == nil {
			c.Incomplete(rule, construct, "", "function not found")
			continue
		}
		info := fn.Info()
		n := 0
		ast.Inspect(fn.Body(), func(nd ast.Node) bool {
			if _, ok := nd.(*ast.FuncLit); ok {
				return false // calls inside worker literals return to the errgroup
			}
			call, ok := nd.(*ast.CallExpr)
			if !ok || !iter(info, call) {
				return true
			}
			n++
			key := fmt.Sprintf("%s#Iter", construct)
			if n > 1 {
				key += fmt.Sprintf("#%d", n)
			}
			// how is the result bound?
			par := p.ParentOf(fn.Pkg, call)
			switch v := par.(type) {
			case *ast.ReturnStmt:
				c.Check(true, rule, key, p.Pos(call.Pos()), "", "")
				return true
			case *ast.AssignStmt:
				if len(v.Lhs) != 1 {
					break
				}
				id, ok := unparen(v.Lhs[0]).(*ast.Ident)
				if !ok || id.Name == "_" {
					c.Check(false, rule, key, p.Pos(call.Pos()), "listing-error-dropped", "the error of the bucket iteration is discarded: a listing that failed half way is taken for the complete set of blocks")
					return true
				}
				o := objOf(info, id)
				used, where := false, ""
				ast.Inspect(fn.Body(), func(m ast.Node) bool {
					switch w := m.(type) {
					case *ast.FuncLit:
						return false
					case *ast.ReturnStmt:
						if w.Pos() < call.End() {
							return true
						}
						if len(w.Results) == 0 && fn.Decl.Type.Results != nil {
							// naked return: a named error result that is this variable is returned
							for _, f := range fn.Decl.Type.Results.List {
								for _, nm := range f.Names {
									if info.Defs[nm] == o {
										used = true
									}
								}
							}
						}
						for _, r := range w.Results {
							ast.Inspect(r, func(k ast.Node) bool {
								if rid, ok := k.(*ast.Ident); ok && objOf(info, rid) == o {
									// the use must see this binding: inside `if o != nil` or with no re-assignment in between (not tracked: accept)
									used = true
								}
								return true
							})
						}
					}
					return true
				})
				if !used {
					where = "`" + id.Name + "` is assigned from the iteration and never returned"
				}
				c.Check(used, rule, key, p.Pos(call.Pos()), "listing-error-dropped",
					where+": a listing that failed half way (a later LIST page, a throttled request) is reported as a successful, complete view — the metadata cache is replaced by it and the compactor garbage-collects, compacts and marks blocks on the truncated set")
				return true
			}
			c.Incomplete(rule, key, p.Pos(call.Pos()), "the iteration's error is bound in a form that is not understood")
			return true
		})
		if n == 0 {
			c.Incomplete(rule, construct, p.Pos(fn.Decl.Pos()), "no bucket iteration found")
		}
	}
}

// C40: boundedSeriesIterator cuts an underlying iterator into windows. chunkenc iterators have no position
// before their first Next/Seek, and a deduplicating iterator already stands on pre-fetched input there — so within
// one call the wrapper reads the underlying position (AtT, At…) only after it advanced the underlying iterator.
func rulesC40PositionReadAfterAdvance(c *Ctx) {
	const rel, rule = "pkg/dedup", "window-reads-position-after-advance"
	c.Rule(rule, "boundedSeriesIterator.Next/Seek read the underlying position only after advancing it in the same call", 1)
	p := c.Load("pkg/dedup")
	if p == nil {
		return
	}
	for _, m := range []string{"Next", "Seek"} {
		fn := p.Func(rel, "boundedSeriesIterator", m)
		construct := rel + ".(*boundedSeriesIterator)." + m
		if fn == nil {
			c.Incomplete(rule, construct, "", "function not found")
			continue
		}
		info := fn.Info()
		onInner := func(names ...string) func(*types.Info, *ast.CallExpr) bool {
			return func(i *types.Info, call *ast.CallExpr) bool {
				se, ok := unparen(call.Fun).(*ast.SelectorExpr)
				if !ok {
					return false
				}
				inner, ok := unparen(se.X).(*ast.SelectorExpr) // it.it
				if !ok {
					return false
				}
				if t := i.TypeOf(inner); t == nil || !strings.HasSuffix(t.String(), "chunkenc.Iterator") {
					return false
				}
				for _, n := range names {
					if se.Sel.Name == n {
						return true
					}
				}
				return false
			}
		}
		e := newE3(p, fn, []Ev{{Name: "adv", Match: func(i *types.Info, call *ast.CallExpr) bool {
			if onInner("Next", "Seek")(i, call) {
				return true
			}
			// the wrapper's own Seek advances too
			if se, ok := unparen(call.Fun).(*ast.SelectorExpr); ok && se.Sel.Name == "Seek" {
				if f := calleeOf(i, call); f != nil && f.Name() == "Seek" && strings.Contains(f.FullName(), "boundedSeriesIterator") {
					return true
				}
			}
			return false
		}}})
		bad, where := "", p.Pos(fn.Decl.Pos())
		reads := onInner("AtT", "At", "AtHistogram", "AtFloatHistogram")
		ast.Inspect(fn.Body(), func(n ast.Node) bool {
			call, ok := n.(*ast.CallExpr)
			if !ok || !reads(info, call) {
				return true
			}
			if b, ok := e.Before(call, "adv"); ok && b&eNo != 0 {
				bad, where = "`"+stmtText(p, call)+"` is read on a path where the underlying iterator was not advanced in this call "+evBitsString(b), p.Pos(call.Pos())
			}
			return true
		})
		c.Check(bad == "", rule, construct, where, "position-read-before-advance",
			bad+": before the first Next the deduplicating iterator underneath already reports its pre-fetched input's timestamp, so a window can be declared exhausted with nothing emitted and sum/min/max/counter lose samples the count aggregate keeps")
	}
}

// C42: a result cached for one step is reused for a coarser step only within the same downsampling level; the
// level written into every key — also the alternative, lower-step keys — is derived from the request's own
// MaxSourceResolution, never from the step the key is generated for.
func rulesC42ResolutionLevelFromRequest(c *Ctx) {
	const rel, rule = "pkg/queryfrontend", "resolution-level-from-request"
	c.Rule(rule, "the resolution level in a range key compares the configured resolutions with the request's MaxSourceResolution only", 1)
	p := c.Load("pkg/queryfrontend")
	if p == nil {
		return
	}
	fn := p.Func(rel, "thanosCacheKeyGenerator", "generateQueryRangeCacheKey")
	construct := rel + ".thanosCacheKeyGenerator.generateQueryRangeCacheKey"
	if fn == nil {
		c.Incomplete(rule, construct, "", "function not found")
		return
	}
	// the function and the same-package helpers it calls
	fns := []*Fn{fn}
	ast.Inspect(fn.Body(), func(n ast.Node) bool {
		if call, ok := n.(*ast.CallExpr); ok {
			if f := calleeOf(fn.Info(), call); f != nil && f.Pkg() != nil && strings.HasSuffix(f.Pkg().Path(), rel) {
				if h := p.findFuncDecl(f); h != nil {
					fns = append(fns, h)
				}
			}
		}
		return true
	})
	found, bad, where := 0, "", p.Pos(fn.Decl.Pos())
	for _, f := range fns {
		info := f.Info()
		reqParam := paramWhere(f, func(t string) bool { return strings.HasSuffix(t, "ThanosQueryRangeRequest") })
		ast.Inspect(f.Body(), func(n ast.Node) bool {
			be, ok := n.(*ast.BinaryExpr)
			if !ok {
				return true
			}
			if be.Op != token.GTR && be.Op != token.LSS && be.Op != token.GEQ && be.Op != token.LEQ {
				return true
			}
			isRes := func(e ast.Expr) bool {
				ix, ok := unparen(e).(*ast.IndexExpr)
				return ok && strings.HasSuffix(canon(ix.X), ".resolutions")
			}
			var other ast.Expr
			switch {
			case isRes(be.X):
				other = be.Y
			case isRes(be.Y):
				other = be.X
			default:
				return true
			}
			found++
			if txt := expandDefText(f, info, other); txt != reqParam+".MaxSourceResolution" {
				bad, where = "the resolution level is chosen by comparing with `"+txt+"` in "+f.Name, p.Pos(be.Pos())
			}
			return true
		})
	}
	if found == 0 {
		c.Incomplete(rule, construct, where, "no comparison with the configured resolutions found")
		return
	}
	c.Check(bad == "", rule, construct, where, "resolution-level-not-from-request",
		bad+", not with the request's MaxSourceResolution: a key generated for another step (the lower-step alternatives) then names the other step's downsampling level, and a coarse query is answered from an entry computed from different downsampled data")
}

// C43: the tenant enters every key verbatim. A rewritten tenant is a different string for the cache and the
// same string for another tenant unless the rewriting is injective; known-lossy operations are reported,
// unknown ones are not decided.
func rulesC43TenantVerbatim(c *Ctx) {
	const rel, rule = "pkg/queryfrontend", "tenant-enters-key-verbatim"
	c.Rule(rule, "the tenant parameter of the key generators is not rewritten before it is written into the key", 3)
	p := c.Load("pkg/queryfrontend")
	if p == nil {
		return
	}
	for _, name := range []string{"GenerateCacheKey", "GenerateCacheKeyAlternatives", "generateQueryRangeCacheKey"} {
		fn := p.Func(rel, "thanosCacheKeyGenerator", name)
		construct := rel + ".thanosCacheKeyGenerator." + name
		if fn == nil {
			c.Incomplete(rule, construct, "", "function not found")
			continue
		}
		info := fn.Info()
		var tenant types.Object
		if ps := fn.Decl.Type.Params; ps != nil && len(ps.List) > 0 && len(ps.List[0].Names) > 0 {
			if o := info.Defs[ps.List[0].Names[0]]; o != nil && o.Type().String() == "string" {
				tenant = o
			}
		}
		if tenant == nil {
			c.Incomplete(rule, construct, p.Pos(fn.Decl.Pos()), "first parameter is not the tenant string")
			continue
		}
		verdict, bad, where := 0, "", p.Pos(fn.Decl.Pos()) // 0 ok, 1 lossy, 2 unknown
		judge := func(e ast.Expr, pos token.Pos) {
			e = unparen(e)
			if id, ok := e.(*ast.Ident); ok && objOf(info, id) == tenant {
				return
			}
			lossy, why := lossyStringOp(p, fn, e)
			if lossy {
				verdict, bad, where = 1, "the tenant is rewritten by `"+canon(e)+"` ("+why+") before it enters the key", p.Pos(pos)
			} else if verdict == 0 {
				verdict, bad, where = 2, "the tenant passes through `"+canon(e)+"` before it enters the key; that this is injective is not established", p.Pos(pos)
			}
		}
		ast.Inspect(fn.Body(), func(n ast.Node) bool {
			switch v := n.(type) {
			case *ast.AssignStmt:
				for i, l := range v.Lhs {
					if id, ok := unparen(l).(*ast.Ident); ok && objOf(info, id) == tenant && i < len(v.Rhs) {
						judge(v.Rhs[i], v.Pos())
					}
				}
			case *ast.CallExpr:
				// the tenant handed on to the range-key helper
				if f := calleeOf(info, v); f != nil && f.Name() == "generateQueryRangeCacheKey" && len(v.Args) > 0 {
					judge(v.Args[0], v.Pos())
				}
			}
			return true
		})
		switch verdict {
		case 2:
			c.Incomplete(rule, construct, where, bad)
		default:
			c.Check(verdict == 0, rule, construct, where, "tenant-rewritten",
				bad+": two tenants whose IDs differ only in what the rewriting erases get identical keys, and one is served the other's cached results")
		}
	}
}

// lossyStringOp recognises string operations that map different inputs to one output.
func lossyStringOp(p *Prog, fn *Fn, e ast.Expr) (bool, string) {
	info := fn.Info()
	call, ok := unparen(e).(*ast.CallExpr)
	if !ok {
		return false, ""
	}
	if tv, ok := info.Types[call.Fun]; ok && tv.IsType() && len(call.Args) == 1 {
		return lossyStringOp(p, fn, call.Args[0]) // string(x) / []byte(x)
	}
	f := calleeOf(info, call)
	if f == nil || f.Pkg() == nil {
		return false, ""
	}
	if f.Pkg().Path() == "strings" || f.Pkg().Path() == "bytes" {
		switch f.Name() {
		case "Replace", "ReplaceAll", "Map", "ToLower", "ToUpper", "ToTitle", "TrimSpace", "Trim", "TrimLeft", "TrimRight", "TrimPrefix", "TrimSuffix", "ToValidUTF8":
			return true, "strings." + f.Name() + " is not injective"
		}
		return false, ""
	}
	// a helper of the same package: look inside (one level)
	h := p.findFuncDecl(f)
	if h == nil {
		return false, ""
	}
	lossy, why := false, ""
	ast.Inspect(h.Body(), func(n ast.Node) bool {
		switch v := n.(type) {
		case *ast.AssignStmt:
			for i, l := range v.Lhs {
				if ix, ok := unparen(l).(*ast.IndexExpr); ok && i < len(v.Rhs) {
					if tv, ok := h.Info().Types[v.Rhs[i]]; ok && tv.Value != nil {
						lossy, why = true, fmt.Sprintf("%s overwrites bytes with the constant %s, which can also occur in an ID", h.Name, canon(v.Rhs[i]))
						_ = ix
					}
				}
			}
		case *ast.CallExpr:
			if l, w := lossyStringOp(p, h, v); l {
				lossy, why = true, h.Name+": "+w
			}
		}
		return true
	})
	return lossy, why
}

// C46: what is trimmed to the queue's capacity is the batch that will be queued — the alerts that survive
// relabelling. Trimming the incoming batch before relabelling counts alerts that are dropped anyway and discards
// survivors that would have fitted.
func rulesC46TrimAfterRelabel(c *Ctx) {
	const rel, rule = "pkg/alert", "capacity-trim-after-relabelling"
	c.Rule(rule, "Push trims the batch to the capacity only after the relabelled batch replaced it", 1)
	p := c.Load("pkg/alert")
	if p == nil {
		return
	}
	fn := p.Func(rel, "Queue", "Push")
	construct := rel + ".(*Queue).Push"
	if fn == nil {
		c.Incomplete(rule, construct, "", "function not found")
		return
	}
	info := fn.Info()
	var batch types.Object
	if ps := fn.Decl.Type.Params; ps != nil && len(ps.List) == 1 && len(ps.List[0].Names) == 1 {
		batch = info.Defs[ps.List[0].Names[0]]
	}
	if batch == nil {
		c.Incomplete(rule, construct, p.Pos(fn.Decl.Pos()), "batch parameter not found")
		return
	}
	isBatch := func(e ast.Expr) bool {
		id, ok := unparen(e).(*ast.Ident)
		return ok && objOf(info, id) == batch
	}
	// relabelled batch takes over: `alerts = <other slice variable>`
	e := newE3(p, fn, []Ev{{Name: "relabelled", MatchNode: func(i *types.Info, n ast.Node) bool {
		as, ok := n.(*ast.AssignStmt)
		if !ok || len(as.Lhs) != 1 || len(as.Rhs) != 1 || !isBatch(as.Lhs[0]) {
			return false
		}
		_, isIdent := unparen(as.Rhs[0]).(*ast.Ident)
		return isIdent
	}}})
	trims, bad, where := 0, "", p.Pos(fn.Decl.Pos())
	ast.Inspect(fn.Body(), func(n ast.Node) bool {
		as, ok := n.(*ast.AssignStmt)
		if !ok || len(as.Lhs) != 1 || len(as.Rhs) != 1 || !isBatch(as.Lhs[0]) {
			return true
		}
		se, ok := unparen(as.Rhs[0]).(*ast.SliceExpr)
		if !ok || !isBatch(se.X) {
			return true
		}
		trims++
		if b, ok := e.Before(as, "relabelled"); !ok || b != eOK {
			bad, where = "`"+stmtText(p, as)+"` trims the incoming batch where the relabelled batch has "+evBitsString(b)+" replaced it", p.Pos(as.Pos())
		}
		return true
	})
	if trims == 0 {
		c.Incomplete(rule, construct, where, "no trim of the batch to the capacity found")
		return
	}
	c.Check(bad == "", rule, construct, where, "trim-before-relabelling",
		bad+": alerts that relabelling drops are counted against the capacity, so older alerts that survive relabelling are discarded although the survivors fit — the queue loses alerts it has room for")
}

// C47: the hash that decides "content changed" covers each watched file's full path followed by its bytes, so a
// file that moves between directories changes the hash.
func rulesC47HashCoversFullPath(c *Ctx) {
	const rel, rule = "pkg/reloader", "file-hash-covers-full-path"
	c.Rule(rule, "hashFile writes its path argument verbatim into the hash", 1)
	p := c.Load("pkg/reloader")
	if p == nil {
		return
	}
	fn := p.Func(rel, "", "hashFile")
	construct := rel + ".hashFile"
	if fn == nil {
		c.Incomplete(rule, construct, "", "function not found")
		return
	}
	info := fn.Info()
	var pathParam types.Object
	for _, f := range fn.Decl.Type.Params.List {
		if info.TypeOf(f.Type).String() == "string" && len(f.Names) > 0 {
			pathParam = info.Defs[f.Names[0]]
		}
	}
	ok, other := false, ""
	ast.Inspect(fn.Body(), func(n ast.Node) bool {
		call, isCall := n.(*ast.CallExpr)
		if !isCall || len(call.Args) != 1 {
			return true
		}
		se, isSel := unparen(call.Fun).(*ast.SelectorExpr)
		if !isSel || (se.Sel.Name != "Write" && se.Sel.Name != "WriteString") {
			return true
		}
		if t := info.TypeOf(se.X); t == nil || !strings.Contains(t.String(), "hash.Hash") {
			return true
		}
		arg := unparen(call.Args[0])
		if conv, isConv := arg.(*ast.CallExpr); isConv && len(conv.Args) == 1 {
			if tv, k := info.Types[conv.Fun]; k && tv.IsType() {
				arg = unparen(conv.Args[0])
			}
		}
		// filepath.Clean(path) names the same file
		if cl, isCall := arg.(*ast.CallExpr); isCall && len(cl.Args) == 1 && isCallTo(info, cl, "path/filepath.Clean") {
			arg = unparen(cl.Args[0])
		}
		if id, isID := arg.(*ast.Ident); isID && pathParam != nil && objOf(info, id) == pathParam {
			ok = true
			return true
		}
		// something derived from the path
		ast.Inspect(arg, func(m ast.Node) bool {
			if id, isID := m.(*ast.Ident); isID && pathParam != nil && objOf(info, id) == pathParam {
				other = canon(arg)
			}
			return true
		})
		return true
	})
	msg := "hashFile does not write the file's path into the hash"
	if other != "" {
		msg = "hashFile writes `" + other + "` instead of the full path into the hash"
	}
	c.Check(ok, rule, construct, p.Pos(fn.Decl.Pos()), "path-not-in-hash",
		msg+": two files with the same name and bytes in different watched directories are indistinguishable, so moving a file leaves the hash unchanged and no reload is triggered")
}

// C49: jump hash is monotone — growing the ring only moves keys onto the new server — because the sequence of
// candidate buckets depends on the key alone; the bucket count only decides where the walk stops. Structurally:
// the loop's condition is the single test `candidate < count`, the body never mentions the count, and nothing
// else leaves the loop.
func rulesC49JumpSequenceIndependentOfCount(c *Ctx) {
	const rel, rule = "pkg/cacheutil", "jump-sequence-independent-of-bucket-count"
	c.Rule(rule, "in jumpHash the bucket count only appears in the loop's exit test", 1)
	p := c.Load("pkg/cacheutil")
	if p == nil {
		return
	}
	fn := p.Func(rel, "", "jumpHash")
	construct := rel + ".jumpHash"
	if fn == nil {
		c.Incomplete(rule, construct, "", "function not found")
		return
	}
	info := fn.Info()
	var count types.Object
	for _, f := range fn.Decl.Type.Params.List {
		if b, ok := info.TypeOf(f.Type).Underlying().(*types.Basic); ok && b.Kind() == types.Int && len(f.Names) > 0 {
			count = info.Defs[f.Names[0]]
		}
	}
	var loop *ast.ForStmt
	ast.Inspect(fn.Body(), func(n ast.Node) bool {
		if f, ok := n.(*ast.ForStmt); ok && loop == nil {
			loop = f
		}
		return true
	})
	if count == nil || loop == nil {
		c.Incomplete(rule, construct, p.Pos(fn.Decl.Pos()), "bucket-count parameter or the jump loop not found")
		return
	}
	mentions := func(n ast.Node) bool {
		hit := false
		ast.Inspect(n, func(m ast.Node) bool {
			if id, ok := m.(*ast.Ident); ok && objOf(info, id) == count {
				hit = true
			}
			return !hit
		})
		return hit
	}
	bad, where := "", p.Pos(loop.Pos())
	switch {
	case loop.Init != nil || loop.Post != nil:
		bad = "the jump loop has an init/post statement (a step counter?)"
	case loop.Cond == nil:
		bad = "the jump loop has no exit test"
	default:
		be, ok := unparen(loop.Cond).(*ast.BinaryExpr)
		if !ok || (be.Op != token.LSS && be.Op != token.GTR) {
			bad = "the loop condition `" + canon(loop.Cond) + "` is not the single test candidate < count"
		} else if mentions(be.X) == mentions(be.Y) {
			bad = "the loop condition `" + canon(loop.Cond) + "` does not compare the candidate with the bucket count"
		}
	}
	if bad == "" && mentions(loop.Body) {
		bad = "the loop body mentions the bucket count"
	}
	if bad == "" {
		ast.Inspect(loop.Body, func(n ast.Node) bool {
			switch v := n.(type) {
			case *ast.BranchStmt:
				bad, where = "`"+v.Tok.String()+"` leaves or shortens the jump loop", p.Pos(v.Pos())
			case *ast.ReturnStmt:
				bad, where = "a return inside the jump loop", p.Pos(v.Pos())
			}
			return true
		})
	}
	// nothing before the loop may depend on the count either (e.g. a step budget computed from it)
	if bad == "" {
		for _, st := range fn.Decl.Body.List {
			if st == ast.Stmt(loop) {
				break
			}
			if mentions(st) {
				bad, where = "`"+stmtText(p, st)+"` derives a quantity from the bucket count before the loop", p.Pos(st.Pos())
			}
		}
	}
	c.Check(bad == "", rule, construct, where, "jump-sequence-depends-on-count",
		bad+": the walk for n+1 buckets is then not a continuation of the walk for n, and adding a server moves keys between old servers")
}
