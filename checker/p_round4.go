package main

// Rules added after the fourth round of seeded changes (C07 C19 C20 C26 C36).

import (
	"fmt"
	"go/ast"
	"go/token"
	"go/types"
	"strings"
)

func init() {
	addRules("C07", rulesC07NarrowingNotForExternalLabel)
	addRules("C19", rulesC19NoWriteToNilMap)
	addRules("C20", rulesC20AlgorithmPerEntry)
	addRules("C26", rulesC26HelpersSkipNothing)
	addRules("C36", rulesC36ChunksDroppedOnlyWhenDisjoint)
}

// C07: LabelValues narrows the series selection with `<label> != ""` — but only for blocks whose index can hold
// the label. For a block where the requested label is an external label the index has no such label: the
// narrowing matcher selects nothing and the block's external value disappears from the answer.
func rulesC07NarrowingNotForExternalLabel(c *Ctx) {
	const rel, rule = "pkg/store", "narrowing-matcher-skipped-for-external-label"
	c.Rule(rule, "the `label != \"\"` matcher is appended to a block's matchers only when the label is not external to the block", 1)
	p := c.Load("pkg/store")
	if p == nil {
		return
	}
	fn := p.Func(rel, "BucketStore", "LabelValues")
	construct := rel + ".(*BucketStore).LabelValues"
	if fn == nil {
		c.Incomplete(rule, construct, "", "function not found")
		return
	}
	info := fn.Info()
	list := lhsOfCallTo(fn, "FilterExtLabelsMatchers", 0)
	if list == "" {
		c.Incomplete(rule, construct, p.Pos(fn.Decl.Pos()), "the per-block matcher list (result of FilterExtLabelsMatchers) was not found")
		return
	}
	n, bad, where := 0, "", p.Pos(fn.Decl.Pos())
	ast.Inspect(fn.Body(), func(nd ast.Node) bool {
		as, ok := nd.(*ast.AssignStmt)
		if !ok || len(as.Lhs) != 1 || len(as.Rhs) != 1 || canon(as.Lhs[0]) != list {
			return true
		}
		call, ok := unparen(as.Rhs[0]).(*ast.CallExpr)
		if !ok {
			return true
		}
		if id, ok := call.Fun.(*ast.Ident); !ok || id.Name != "append" || len(call.Args) < 2 || canon(call.Args[0]) != list {
			return true
		}
		n++
		guarded := false
		for _, g := range guardsOf(p, fn, as) {
			if !g.Pol {
				continue
			}
			for _, cj := range splitAnd(g.Cond) {
				u, ok := unparen(cj).(*ast.UnaryExpr)
				if !ok || u.Op != token.NOT {
					continue
				}
				hc, ok := unparen(u.X).(*ast.CallExpr)
				if !ok || len(hc.Args) != 1 {
					continue
				}
				se, ok := unparen(hc.Fun).(*ast.SelectorExpr)
				if ok && se.Sel.Name == "Has" && strings.HasSuffix(canon(se.X), ".extLset") && strings.HasSuffix(canon(hc.Args[0]), ".Label") {
					guarded = true
				}
			}
		}
		if !guarded {
			bad, where = "`"+stmtText(p, as)+"` adds the narrowing matcher without testing that the requested label is not an external label of the block", p.Pos(as.Pos())
		}
		return true
	})
	_ = info
	if n == 0 {
		c.Incomplete(rule, construct, where, "no append to the per-block matcher list found")
		return
	}
	c.Check(bad == "", rule, construct, where, "narrowing-applied-to-external-label",
		bad+": external labels are not in the block's index, so the postings are empty and a value that Series returns on every series of the block is missing from LabelValues")
}

// C19: loading a ring must not crash either. In the ring construction a map that was set to nil (or declared
// without a value) is written on some path before it is made again — a run-time panic for exactly the layouts
// that reach that path.
func rulesC19NoWriteToNilMap(c *Ctx) {
	const rel, rule = "pkg/receive", "no-write-to-nil-map"
	c.Rule(rule, "in the hashring construction no map is written on a path where it is nil", 1)
	p := c.Load("pkg/receive")
	if p == nil {
		return
	}
	checked := 0
	for _, fn := range p.AllFuncs(true) {
		if !strings.HasSuffix(fn.Pkg.PkgPath, rel) || !strings.HasSuffix(p.Fset.Position(fn.Decl.Pos()).Filename, "/hashring.go") {
			continue
		}
		info := fn.Info()
		// map-typed locals that are nil somewhere
		cands := map[types.Object]bool{}
		ast.Inspect(fn.Body(), func(n ast.Node) bool {
			switch v := n.(type) {
			case *ast.AssignStmt:
				if len(v.Lhs) == len(v.Rhs) {
					for i, r := range v.Rhs {
						if isNilIdent(r) {
							if id, ok := unparen(v.Lhs[i]).(*ast.Ident); ok {
								if o := objOf(info, id); o != nil {
									if _, isMap := o.Type().Underlying().(*types.Map); isMap {
										cands[o] = true
									}
								}
							}
						}
					}
				}
			case *ast.ValueSpec:
				if len(v.Values) == 0 {
					for _, nm := range v.Names {
						if o := info.Defs[nm]; o != nil {
							if _, isMap := o.Type().Underlying().(*types.Map); isMap {
								cands[o] = true
							}
						}
					}
				}
			}
			return true
		})
		for o := range cands {
			obj := o
			checked++
			assigns := func(n ast.Node) (isNil, isSet bool) {
				switch v := n.(type) {
				case *ast.AssignStmt:
					if len(v.Lhs) == len(v.Rhs) {
						for i, l := range v.Lhs {
							if id, ok := unparen(l).(*ast.Ident); ok && objOf(info, id) == obj {
								if isNilIdent(v.Rhs[i]) {
									isNil = true
								} else {
									isSet = true
								}
							}
						}
					}
				case *ast.DeclStmt:
					if gd, ok := v.Decl.(*ast.GenDecl); ok {
						for _, sp := range gd.Specs {
							if vs, ok := sp.(*ast.ValueSpec); ok {
								for i, nm := range vs.Names {
									if info.Defs[nm] == obj {
										if len(vs.Values) == 0 || isNilIdent(vs.Values[i]) {
											isNil = true
										} else {
											isSet = true
										}
									}
								}
							}
						}
					}
				}
				return
			}
			spec := FlowSpec[bool]{
				Entry: false,
				Transfer: func(n ast.Node, s bool) bool {
					isNil, isSet := assigns(n)
					if isNil {
						return true
					}
					if isSet {
						return false
					}
					return s
				},
				Join:  func(a, b bool) bool { return a || b },
				Equal: func(a, b bool) bool { return a == b },
			}
			r := runFlow(p, fn, spec)
			bad, where := "", p.Pos(fn.Decl.Pos())
			ast.Inspect(fn.Body(), func(n ast.Node) bool {
				var target ast.Expr
				switch v := n.(type) {
				case *ast.AssignStmt:
					for _, l := range v.Lhs {
						if ix, ok := unparen(l).(*ast.IndexExpr); ok {
							target = ix.X
						}
					}
				case *ast.IncDecStmt:
					if ix, ok := unparen(v.X).(*ast.IndexExpr); ok {
						target = ix.X
					}
				}
				if target == nil {
					return true
				}
				if id, ok := unparen(target).(*ast.Ident); !ok || objOf(info, id) != obj {
					return true
				}
				if s, ok := r.Before(n); ok && s {
					bad, where = "`"+stmtText(p, n)+"` writes "+obj.Name()+" on a path where it is nil", p.Pos(n.Pos())
				}
				return true
			})
			c.Check(bad == "", rule, rel+"."+fn.Name+"#"+obj.Name(), where, "nil-map-write",
				bad+": the ring construction panics for the configurations that reach this path instead of returning a ring or an error")
		}
	}
	if checked == 0 {
		// nothing nil-able today: the rule is discharged by absence (recorded so that the count is visible)
		c.Check(true, rule, rel+"/hashring.go", "", "", "")
	}
}

// C20: which algorithm builds a ring is decided per configuration entry: the variable handed to newHashring is
// (re)initialised in every iteration. A variable that lives across iterations lets one entry's override leak into
// the following entries — a ring configured as ketama is silently built as hashmod and loses its stability.
func rulesC20AlgorithmPerEntry(c *Ctx) {
	const rel, rule = "pkg/receive", "algorithm-chosen-per-entry"
	c.Rule(rule, "the algorithm passed to newHashring is initialised inside the per-entry loop", 1)
	p := c.Load("pkg/receive")
	if p == nil {
		return
	}
	fn := p.Func(rel, "", "NewMultiHashring")
	construct := rel + ".NewMultiHashring"
	if fn == nil {
		c.Incomplete(rule, construct, "", "function not found")
		return
	}
	info := fn.Info()
	n, bad, where := 0, "", p.Pos(fn.Decl.Pos())
	ast.Inspect(fn.Body(), func(nd ast.Node) bool {
		loop, ok := nd.(*ast.RangeStmt)
		if !ok {
			return true
		}
		ast.Inspect(loop.Body, func(m ast.Node) bool {
			call, ok := m.(*ast.CallExpr)
			if !ok || len(call.Args) == 0 {
				return true
			}
			if f := calleeOf(info, call); f == nil || f.Name() != "newHashring" {
				return true
			}
			n++
			id, ok := unparen(call.Args[0]).(*ast.Ident)
			if !ok {
				return true // an expression evaluated per iteration
			}
			o := objOf(info, id)
			if o == nil {
				return true
			}
			if o.Pos() >= loop.Body.Pos() && o.Pos() < loop.Body.End() {
				return true // declared in the loop body
			}
			// declared outside: fine only if it is assigned unconditionally at the top level of the body before the call
			reset := false
			for _, st := range loop.Body.List {
				if st.Pos() >= call.Pos() {
					break
				}
				if as, ok := st.(*ast.AssignStmt); ok {
					for _, l := range as.Lhs {
						if lid, ok := unparen(l).(*ast.Ident); ok && objOf(info, lid) == o {
							reset = true
						}
					}
				}
			}
			assignedInLoop := false
			ast.Inspect(loop.Body, func(k ast.Node) bool {
				if as, ok := k.(*ast.AssignStmt); ok {
					for _, l := range as.Lhs {
						if lid, ok := unparen(l).(*ast.Ident); ok && objOf(info, lid) == o {
							assignedInLoop = true
						}
					}
				}
				return true
			})
			if assignedInLoop && !reset {
				bad, where = "`"+id.Name+"` is declared outside the loop over the configuration entries and only conditionally assigned inside it", p.Pos(call.Pos())
			}
			return true
		})
		return true
	})
	if n == 0 {
		c.Incomplete(rule, construct, where, "no newHashring call inside a loop found")
		return
	}
	c.Check(bad == "", rule, construct, where, "algorithm-leaks-across-entries",
		bad+": an entry's own `algorithm` then also applies to every later entry without one, so a ring configured as ketama is built as hashmod and adding an endpoint moves series between pre-existing nodes")
}

// C26 (extension): the helpers of the v2 translation skip nothing either.
func rulesC26HelpersSkipNothing(c *Ctx) {
	const rel, rule = "pkg/receive", "v2-helpers-skip-nothing"
	c.Rule(rule, "the loops of the v2 translation helpers (label references, spans) have no continue/break", 2)
	p := c.Load("pkg/receive")
	if p == nil {
		return
	}
	root := p.Func(rel, "", "translateV2ToV1")
	if root == nil {
		c.Incomplete(rule, rel+".translateV2ToV1", "", "function not found")
		return
	}
	seen := map[*types.Func]bool{}
	var helpers []*Fn
	ast.Inspect(root.Body(), func(n ast.Node) bool {
		if call, ok := n.(*ast.CallExpr); ok {
			if f := calleeOf(root.Info(), call); f != nil && f.Pkg() != nil && strings.HasSuffix(f.Pkg().Path(), rel) && !seen[f] {
				seen[f] = true
				if h := p.findFuncDecl(f); h != nil {
					helpers = append(helpers, h)
				}
			}
		}
		return true
	})
	for _, h := range helpers {
		bad, where := "", p.Pos(h.Decl.Pos())
		var walk func(n ast.Node, inLoop, inSwitch bool)
		walk = func(n ast.Node, inLoop, inSwitch bool) {
			ast.Inspect(n, func(m ast.Node) bool {
				if m == n {
					return true
				}
				switch v := m.(type) {
				case *ast.FuncLit:
					return false
				case *ast.ForStmt:
					walk(v.Body, true, false)
					return false
				case *ast.RangeStmt:
					walk(v.Body, true, false)
					return false
				case *ast.SwitchStmt, *ast.TypeSwitchStmt, *ast.SelectStmt:
					walk(m, inLoop, true)
					return false
				case *ast.BranchStmt:
					if inLoop && (v.Tok == token.CONTINUE || (v.Tok == token.BREAK && (!inSwitch || v.Label != nil))) {
						bad, where = "`"+v.Tok.String()+"` in a loop of "+h.Name, p.Pos(v.Pos())
					}
				}
				return true
			})
		}
		walk(h.Body(), false, false)
		c.Check(bad == "", rule, rel+"."+h.Name, where, "v2-part-skipped",
			bad+" skips part of what the request describes (a label pair, a span): the series is ingested with different labels or buckets than the sender described, without an error")
	}
	if len(helpers) == 0 {
		c.Incomplete(rule, rel+".translateV2ToV1", p.Pos(root.Decl.Pos()), "no translation helper found")
	}
}

// C36: reading an aggregate back goes through chunkSeries.Iterator, which hands every chunk of the series to the
// bounded iterator. If the chunk list is trimmed beforehand, a chunk may be dropped only when it is disjoint from
// the requested range [mint, maxt] (both ends inclusive).
func rulesC36ChunksDroppedOnlyWhenDisjoint(c *Ctx) {
	const rel, rule = "pkg/query", "chunks-dropped-only-when-disjoint"
	c.Rule(rule, "chunkSeries.Iterator reads every chunk of the series, or drops chunks only when they cannot overlap [mint, maxt]", 1)
	p := c.Load("pkg/query")
	if p == nil {
		return
	}
	fn := p.Func(rel, "chunkSeries", "Iterator")
	construct := rel + ".(*chunkSeries).Iterator"
	if fn == nil {
		c.Incomplete(rule, construct, "", "function not found")
		return
	}
	info := fn.Info()
	recv := ""
	if fn.Decl.Recv != nil && len(fn.Decl.Recv.List[0].Names) == 1 {
		recv = fn.Decl.Recv.List[0].Names[0].Name
	}
	loops, bad, where, incomplete := 0, "", p.Pos(fn.Decl.Pos()), ""
	ast.Inspect(fn.Body(), func(n ast.Node) bool {
		r, ok := n.(*ast.RangeStmt)
		if !ok {
			return true
		}
		t := info.TypeOf(r.X)
		if t == nil || !strings.Contains(t.String(), "AggrChunk") {
			return true
		}
		loops++
		if canon(r.X) == recv+".chunks" {
			return true
		}
		// a derived list: follow `x := recv.helper()` / `x := helper(recv...)` one level and decide its drop conditions
		id, ok := unparen(r.X).(*ast.Ident)
		if !ok {
			incomplete = "the chunks are read from `" + canon(r.X) + "`"
			return true
		}
		var def ast.Expr
		if o, ok := info.Uses[id].(*types.Var); ok {
			def = singleDef(fn, info, o)
		}
		call, ok := def.(*ast.CallExpr)
		if !ok {
			incomplete = "the chunk list `" + id.Name + "` is not the series' own list and its origin is not a single call"
			return true
		}
		f := calleeOf(info, call)
		var h *Fn
		if f != nil {
			h = p.findFuncDecl(f)
		}
		if h == nil {
			incomplete = "the chunk list comes from `" + canon(call) + "`, which is not a function of this package"
			return true
		}
		b, inc := c36DropConditions(p, h)
		if inc != "" {
			incomplete = inc
		}
		if b != "" {
			bad, where = b, p.Pos(h.Decl.Pos())
		}
		return true
	})
	switch {
	case loops == 0:
		c.Incomplete(rule, construct, where, "no loop over the series' chunks found")
	case bad != "":
		c.Check(false, rule, construct, where, "overlapping-chunk-dropped", bad+": the aggregate sample on that boundary is lost when the range is read back through the querier")
	case incomplete != "":
		c.Incomplete(rule, construct, where, incomplete+"; that every chunk overlapping [mint, maxt] is still read is not decided")
	default:
		c.Check(true, rule, construct, where, "", "")
	}
}

// c36DropConditions inspects a trimming helper: loops of the form `for len(x) > 0 && D { x = x[1:] | x[:len(x)-1] }`.
// Every D must imply that the dropped chunk is disjoint from [mint, maxt].
func c36DropConditions(p *Prog, h *Fn) (bad, incomplete string) {
	info := h.Info()
	recv := ""
	if h.Decl.Recv != nil && len(h.Decl.Recv.List[0].Names) == 1 {
		recv = h.Decl.Recv.List[0].Names[0].Name
	}
	if recv == "" {
		return "", "the trimming helper " + h.Name + " has no receiver to read mint/maxt from"
	}
	sel := func(x ast.Expr, f string) ast.Expr { return &ast.SelectorExpr{X: x, Sel: ast.NewIdent(f)} }
	mint, maxt := sel(ast.NewIdent(recv), "mint"), sel(ast.NewIdent(recv), "maxt")
	found := 0
	ast.Inspect(h.Body(), func(n ast.Node) bool {
		loop, ok := n.(*ast.ForStmt)
		if !ok || loop.Cond == nil {
			return true
		}
		// the dropped element: an index expression whose fields the condition reads
		var elem ast.Expr
		var conds []ast.Expr
		for _, cj := range splitAnd(loop.Cond) {
			hasElem := false
			ast.Inspect(cj, func(m ast.Node) bool {
				if se, ok := m.(*ast.SelectorExpr); ok {
					if ix, ok := unparen(se.X).(*ast.IndexExpr); ok && (se.Sel.Name == "MinTime" || se.Sel.Name == "MaxTime") {
						elem, hasElem = ix, true
					}
				}
				return true
			})
			if hasElem {
				conds = append(conds, cj)
			}
		}
		if elem == nil {
			return true
		}
		found++
		disjoint := &ast.BinaryExpr{
			X:  &ast.BinaryExpr{X: sel(elem, "MaxTime"), Op: token.LSS, Y: mint},
			Op: token.LOR,
			Y:  &ast.BinaryExpr{X: sel(elem, "MinTime"), Op: token.GTR, Y: maxt},
		}
		wellFormed := &ast.BinaryExpr{X: sel(elem, "MinTime"), Op: token.LEQ, Y: sel(elem, "MaxTime")}
		rangeOK := &ast.BinaryExpr{X: mint, Op: token.LEQ, Y: maxt}
		holds, ok2, cex := impliedOnSmallDomain(info, append([]ast.Expr{wellFormed, rangeOK}, conds...), disjoint, 0, 3)
		switch {
		case !ok2:
			incomplete = "the drop condition `" + canon(loop.Cond) + "` in " + h.Name + " is not understood"
		case !holds:
			bad = fmt.Sprintf("%s drops a chunk under `%s` although it still overlaps the range (e.g. %s)", h.Name, canon(loop.Cond), fmtAtomEnv(cex))
		}
		return true
	})
	if found == 0 && bad == "" && incomplete == "" {
		incomplete = "no trimming loop recognised in " + h.Name
	}
	return bad, incomplete
}

func init() {
	addRules("C10", rulesC10SetKeysSortedAtSource)
	addRules("C06", rulesC06WarningsOnEverySuccess)
}

// C06: with the warn strategy a failed store shows up as a warning on the result. The proxy hands the warnings
// to the querier in the response object; every successful return of selectFn after the fan-out returns a series
// set built with them. A shortcut that returns another set (an empty one for an empty result) drops the only
// trace of the failed store exactly when it mattered most.
func rulesC06WarningsOnEverySuccess(c *Ctx) {
	const rel, rule = "pkg/query", "warnings-on-every-successful-select"
	c.Rule(rule, "every successful return of selectFn after the fan-out carries the response's warnings", 1)
	p := c.Load("pkg/query")
	if p == nil {
		return
	}
	fn := p.Func(rel, "querier", "selectFn")
	construct := rel + ".(*querier).selectFn"
	if fn == nil {
		c.Incomplete(rule, construct, "", "function not found")
		return
	}
	info := fn.Info()
	// the fan-out call and the variables that hold the warnings
	var fanout *ast.CallExpr
	warn := map[string]bool{}
	ast.Inspect(fn.Body(), func(n ast.Node) bool {
		switch v := n.(type) {
		case *ast.CallExpr:
			if se, ok := unparen(v.Fun).(*ast.SelectorExpr); ok && se.Sel.Name == "Series" && strings.HasSuffix(canon(se.X), ".proxy") && fanout == nil {
				fanout = v
			}
		case *ast.AssignStmt:
			if len(v.Lhs) == 1 && len(v.Rhs) == 1 && strings.Contains(canon(v.Rhs[0]), ".warnings") {
				if id, ok := unparen(v.Lhs[0]).(*ast.Ident); ok {
					warn[id.Name] = true
				}
			}
		}
		return true
	})
	if fanout == nil {
		c.Incomplete(rule, construct, p.Pos(fn.Decl.Pos()), "the proxy fan-out call was not found")
		return
	}
	carries := func(txt string) bool {
		if strings.Contains(txt, ".warnings") {
			return true
		}
		for w := range warn {
			for _, pre := range []string{"(", ","} {
				for _, post := range []string{")", ","} {
					if strings.Contains(txt, pre+w+post) {
						return true
					}
				}
			}
		}
		return false
	}
	n, bad, where := 0, "", p.Pos(fn.Decl.Pos())
	ast.Inspect(fn.Body(), func(m ast.Node) bool {
		if _, ok := m.(*ast.FuncLit); ok {
			return false
		}
		r, ok := m.(*ast.ReturnStmt)
		if !ok || r.Pos() < fanout.End() || len(r.Results) == 0 || !isNilIdent(r.Results[len(r.Results)-1]) {
			return true
		}
		n++
		if txt := expandDefText(fn, info, r.Results[0]); !carries(txt) {
			bad, where = "`"+stmtText(p, r)+"` returns a series set that was not built with the response's warnings", p.Pos(r.Pos())
		}
		return true
	})
	if n == 0 {
		c.Incomplete(rule, construct, where, "no successful return after the fan-out found")
		return
	}
	c.Check(bad == "", rule, construct, where, "warnings-dropped",
		bad+": with the warn strategy the query then succeeds without any warning although a store failed — for an empty result the user cannot tell \"no data\" from \"the store holding the data was down\"")
}

// C10: the keys of a posting group are consumed as an ascending list — by mergeKeys and, with lazy expansion,
// by the index-header lookup that scans the postings table forward. The alternatives of a regex set matcher
// come in the order they were written, so toPostingGroup sorts them before they become a group's keys.
func rulesC10SetKeysSortedAtSource(c *Ctx) {
	const rel, rule = "pkg/store", "set-matcher-keys-sorted-at-source"
	c.Rule(rule, "every posting group built from SetMatches() gets the values sorted first", 2)
	p := c.Load("pkg/store")
	if p == nil {
		return
	}
	fn := p.Func(rel, "", "toPostingGroup")
	construct := rel + ".toPostingGroup"
	if fn == nil {
		c.Incomplete(rule, construct, "", "function not found")
		return
	}
	info := fn.Info()
	// variables bound to m.SetMatches()
	var vars []types.Object
	ast.Inspect(fn.Body(), func(n ast.Node) bool {
		as, ok := n.(*ast.AssignStmt)
		if !ok || len(as.Lhs) != 1 || len(as.Rhs) != 1 {
			return true
		}
		call, ok := unparen(as.Rhs[0]).(*ast.CallExpr)
		if !ok {
			return true
		}
		if se, ok := unparen(call.Fun).(*ast.SelectorExpr); ok && se.Sel.Name == "SetMatches" {
			if id, ok := unparen(as.Lhs[0]).(*ast.Ident); ok {
				if o := objOf(info, id); o != nil {
					vars = append(vars, o)
				}
			}
		}
		return true
	})
	if len(vars) == 0 {
		c.Incomplete(rule, construct, p.Pos(fn.Decl.Pos()), "no use of SetMatches() found")
		return
	}
	for i, o := range vars {
		obj := o
		e := newE3(p, fn, []Ev{{Name: "sorted", Match: func(in *types.Info, call *ast.CallExpr) bool {
			f := calleeOf(in, call)
			if f == nil || f.Pkg() == nil || len(call.Args) == 0 {
				return false
			}
			if !(f.Pkg().Path() == "sort" && f.Name() == "Strings") && !(f.Pkg().Path() == "slices" && f.Name() == "Sort") {
				return false
			}
			id, ok := unparen(call.Args[0]).(*ast.Ident)
			return ok && objOf(in, id) == obj
		}}})
		bad, where, uses := "", p.Pos(obj.Pos()), 0
		ast.Inspect(fn.Body(), func(n ast.Node) bool {
			call, ok := n.(*ast.CallExpr)
			if !ok {
				return true
			}
			if f := calleeOf(info, call); f == nil || f.Name() != "newPostingGroup" {
				return true
			}
			for _, a := range call.Args {
				if id, ok := unparen(a).(*ast.Ident); ok && objOf(info, id) == obj {
					uses++
					if b, ok := e.Before(call, "sorted"); !ok || b != eOK {
						bad, where = "`"+stmtText(p, call)+"` takes the alternatives of the set matcher as keys where they are "+evBitsString(b)+" sorted", p.Pos(call.Pos())
					}
				}
			}
			return true
		})
		if uses == 0 {
			continue
		}
		c.Check(bad == "", rule, fmt.Sprintf("%s#set%d", construct, i+1), where, "set-keys-unsorted",
			bad+": with lazy expanded postings the keys go to the index-header lookup, whose forward scan reports every value after an out-of-order one as absent — the group looks empty and the request returns no series, while the same request without lazy expansion returns them")
	}
}
