package main

// Rules added after the fifth round of seeded changes (C03 C11 C18 C24 C30 C40 C41 C45).

import (
	"fmt"
	"go/ast"
	"go/token"
	"go/types"
	"strings"
)

func init() {
	addRules("C03", rulesC03BatchBufferResetAfterSend)
	addRules("C11", rulesC11PrefixWidthMeasured)
	addRules("C18", rulesC18SectionsOwnReplicaStorage)
	addRules("C24", rulesC24StartReturnsInnerError)
	addRules("C30", rulesC30ReplanSeesKnownMarks)
	addRules("C40", rulesC40WindowBoundsInclusive)
	addRules("C41", rulesC41SinglePointCaseIsStartEqualsEnd)
	addRules("C45", rulesC45ReplicaLabelsRemovedFromOneBuilder)
	addRules("C25", rulesC25MarshalLoopsSkipNothing)
}

// C25: the capnp writer fills pre-sized lists element by element; an element that is skipped stays zero on the
// wire. No loop of marshal.go leaves an element out (no continue/break).
func rulesC25MarshalLoopsSkipNothing(c *Ctx) {
	const rel, rule = "pkg/receive/writecapnp", "marshal-loops-skip-nothing"
	c.Rule(rule, "the element loops of the capnp writer have no continue/break", 6)
	p := c.Load("pkg/receive/writecapnp")
	if p == nil {
		return
	}
	n := 0
	for _, fn := range p.AllFuncs(true) {
		if !strings.HasSuffix(fn.Pkg.PkgPath, rel) || !strings.HasSuffix(p.Fset.Position(fn.Decl.Pos()).Filename, "/marshal.go") {
			continue
		}
		k := 0
		ast.Inspect(fn.Body(), func(nd ast.Node) bool {
			var body *ast.BlockStmt
			switch v := nd.(type) {
			case *ast.RangeStmt:
				body = v.Body
			case *ast.ForStmt:
				body = v.Body
			default:
				return true
			}
			n++
			k++
			bad, where := "", p.Pos(nd.Pos())
			var walk func(m ast.Node, inSwitch bool)
			walk = func(m ast.Node, inSwitch bool) {
				ast.Inspect(m, func(x ast.Node) bool {
					if x == m {
						return true
					}
					switch v := x.(type) {
					case *ast.FuncLit, *ast.ForStmt, *ast.RangeStmt:
						return false
					case *ast.SwitchStmt, *ast.TypeSwitchStmt, *ast.SelectStmt:
						walk(x, true)
						return false
					case *ast.BranchStmt:
						if v.Tok == token.CONTINUE || (v.Tok == token.BREAK && (!inSwitch || v.Label != nil)) {
							bad, where = "`"+v.Tok.String()+"`", p.Pos(v.Pos())
						}
					}
					return true
				})
			}
			walk(body, false)
			c.Check(bad == "", rule, fmt.Sprintf("%s.%s#loop%d", rel, fn.Name, k), where, "wire-element-skipped",
				bad+" leaves an element of a pre-sized capnp list unwritten: it reaches the peer as zeros (a span without its offset, a sample without its value) and the replicated series differs from the original without any error")
			return true
		})
	}
	if n == 0 {
		c.Incomplete(rule, rel+"/marshal.go", "", "no loops found")
	}
}

// C03: the batching server keeps the series it has not sent yet in b.series. Whenever that buffer is sent it is
// replaced by a fresh one before the method returns successfully — otherwise the same series go out again with
// the next batch and a label set is listed twice (and out of order).
func rulesC03BatchBufferResetAfterSend(c *Ctx) {
	const rel, rule = "pkg/store", "batch-buffer-reset-after-send"
	c.Rule(rule, "every successful path of batchableServer.Send/Flush that sends the buffer also replaces it", 2)
	p := c.Load("pkg/store")
	if p == nil {
		return
	}
	var methods []*Fn
	for _, fn := range p.AllFuncs(true) {
		if strings.HasSuffix(fn.Pkg.PkgPath, rel) && strings.HasPrefix(fn.Name, "(*batchableServer).") {
			methods = append(methods, fn)
		}
	}
	if len(methods) == 0 {
		c.Incomplete(rule, rel+".batchableServer", "", "no methods of batchableServer found")
		return
	}
	info := methods[0].Info()
	isBufSend := func(call *ast.CallExpr) bool {
		// X.Send(storepb.NewBatchResponse(b.series))
		if se, ok := unparen(call.Fun).(*ast.SelectorExpr); !ok || se.Sel.Name != "Send" || len(call.Args) != 1 {
			return false
		}
		inner, ok := unparen(call.Args[0]).(*ast.CallExpr)
		if !ok || len(inner.Args) != 1 {
			return false
		}
		f := calleeOf(info, inner)
		return f != nil && f.Name() == "NewBatchResponse" && strings.HasSuffix(canon(inner.Args[0]), ".series")
	}
	isReset := func(n ast.Node) bool {
		as, ok := n.(*ast.AssignStmt)
		if !ok {
			return false
		}
		for i, l := range as.Lhs {
			if se, ok := unparen(l).(*ast.SelectorExpr); ok && se.Sel.Name == "series" && i < len(as.Rhs) {
				if call, ok := unparen(as.Rhs[i]).(*ast.CallExpr); ok {
					if id, ok := call.Fun.(*ast.Ident); ok && id.Name == "make" {
						return true
					}
				}
				if isNilIdent(as.Rhs[i]) {
					return true
				}
				if sl, ok := unparen(as.Rhs[i]).(*ast.SliceExpr); ok && sl.High != nil && canon(sl.High) == "0" {
					return false // b.series[:0] keeps the storage the sent batch still references
				}
			}
		}
		return false
	}
	// summaries of the methods: does a call send the buffer / replace it?
	type summary struct{ sends, resets bool }
	sum := map[string]summary{}
	for _, m := range methods {
		s := summary{}
		ast.Inspect(m.Body(), func(n ast.Node) bool {
			if call, ok := n.(*ast.CallExpr); ok && isBufSend(call) {
				s.sends = true
			}
			if isReset(n) {
				s.resets = true
			}
			return true
		})
		sum[m.Decl.Name.Name] = s
	}
	for _, m := range methods {
		if m.Decl.Name.Name != "Send" && m.Decl.Name.Name != "Flush" {
			continue
		}
		construct := rel + "." + m.Name
		bad, where := "", p.Pos(m.Decl.Pos())
		// effects of one expression / simple statement, in source order
		effects := func(n ast.Node, dirty bool) bool {
			ast.Inspect(n, func(k ast.Node) bool {
				switch v := k.(type) {
				case *ast.FuncLit:
					return false
				case *ast.CallExpr:
					if isBufSend(v) {
						dirty = true
					} else if se, ok := unparen(v.Fun).(*ast.SelectorExpr); ok {
						if f := calleeOf(info, v); f != nil && strings.Contains(f.FullName(), "batchableServer") {
							if s, ok := sum[se.Sel.Name]; ok && se.Sel.Name != m.Decl.Name.Name {
								if s.sends {
									dirty = true
								}
								if s.resets {
									dirty = false
								}
							}
						}
					}
				}
				return true
			})
			if isReset(n) {
				dirty = false
			}
			return dirty
		}
		var walk func(list []ast.Stmt, in []bool, failing bool) []bool
		walk = func(list []ast.Stmt, in []bool, failing bool) []bool {
			cur := in
			for _, st := range list {
				var next []bool
				for _, d := range cur {
					switch v := st.(type) {
					case *ast.ReturnStmt:
						d2 := d
						for _, r := range v.Results {
							d2 = effects(r, d2)
						}
						// a return of the failed call's error is not a successful path
						isFail := failing && len(v.Results) > 0 && !isNilIdent(v.Results[len(v.Results)-1])
						if d2 && !isFail {
							bad, where = "`"+stmtText(p, v)+"` is reached with the sent batch still in the buffer", p.Pos(v.Pos())
						}
					case *ast.IfStmt:
						d2 := d
						if v.Init != nil {
							d2 = effects(v.Init, d2)
						}
						d2 = effects(v.Cond, d2)
						_, nonNil, isNilTest := nilTest(info, v.Cond)
						next = append(next, walk(v.Body.List, []bool{d2}, isNilTest && nonNil)...)
						switch el := v.Else.(type) {
						case *ast.BlockStmt:
							next = append(next, walk(el.List, []bool{d2}, false)...)
						case *ast.IfStmt:
							next = append(next, walk([]ast.Stmt{el}, []bool{d2}, false)...)
						default:
							next = append(next, d2)
						}
					case *ast.BlockStmt:
						next = append(next, walk(v.List, []bool{d}, failing)...)
					case *ast.ForStmt:
						next = append(next, d)
						next = append(next, walk(v.Body.List, []bool{d}, false)...)
					case *ast.RangeStmt:
						next = append(next, d)
						next = append(next, walk(v.Body.List, []bool{d}, false)...)
					default:
						next = append(next, effects(st, d))
					}
				}
				// deduplicate
				seen := map[bool]bool{}
				cur = cur[:0:0]
				for _, d := range next {
					if !seen[d] {
						seen[d] = true
						cur = append(cur, d)
					}
				}
				if len(cur) == 0 {
					break
				}
			}
			return cur
		}
		for _, d := range walk(m.Decl.Body.List, []bool{false}, false) {
			if d {
				bad = "the method can fall off its end with the sent batch still in the buffer"
			}
		}
		c.Check(bad == "", rule, construct, where, "sent-batch-kept",
			bad+": the series of that batch are sent again with the next batch or the final flush — a label set is listed twice and out of order, and only when a warning or hints frame arrives while a partial batch is buffered")
	}
}

// C11: entries of the postings offset table start with a key count and the label name, whose length prefix is a
// uvarint: the number of bytes to skip is measured from the decoder on the first entry (the variable starts at 0
// and skipNAndName fills it in), never computed from len(name).
func rulesC11PrefixWidthMeasured(c *Ctx) {
	const rel, rule = "pkg/block/indexheader", "entry-prefix-width-measured"
	c.Rule(rule, "the skip width handed to skipNAndName starts at 0 and is not assigned elsewhere", 1)
	p := c.Load("pkg/block/indexheader")
	if p == nil {
		return
	}
	found := 0
	for _, fn := range p.AllFuncs(true) {
		if !strings.HasSuffix(fn.Pkg.PkgPath, rel) {
			continue
		}
		info := fn.Info()
		ast.Inspect(fn.Body(), func(n ast.Node) bool {
			call, ok := n.(*ast.CallExpr)
			if !ok || len(call.Args) != 2 {
				return true
			}
			if f := calleeOf(info, call); f == nil || f.Name() != "skipNAndName" {
				return true
			}
			u, ok := unparen(call.Args[1]).(*ast.UnaryExpr)
			if !ok || u.Op != token.AND {
				return true
			}
			id, ok := unparen(u.X).(*ast.Ident)
			if !ok {
				return true
			}
			found++
			o := objOf(info, id)
			bad, where := "", p.Pos(call.Pos())
			ast.Inspect(fn.Body(), func(m ast.Node) bool {
				switch v := m.(type) {
				case *ast.AssignStmt:
					for i, l := range v.Lhs {
						if lid, ok := unparen(l).(*ast.Ident); ok && objOf(info, lid) == o {
							if v.Tok != token.DEFINE && v.Tok != token.ASSIGN || i >= len(v.Rhs) {
								bad, where = "`"+stmtText(p, v)+"` changes the skip width", p.Pos(v.Pos())
							} else if k, isC := constInt(info, v.Rhs[i]); !isC || k != 0 {
								bad, where = "`"+stmtText(p, v)+"` presets the skip width instead of letting the first entry be measured", p.Pos(v.Pos())
							}
						}
					}
				case *ast.ValueSpec:
					for i, nm := range v.Names {
						if info.Defs[nm] == o && i < len(v.Values) {
							if k, isC := constInt(info, v.Values[i]); !isC || k != 0 {
								bad, where = "the skip width is preset to `"+canon(v.Values[i])+"`", p.Pos(v.Pos())
							}
						}
					}
				}
				return true
			})
			c.Check(bad == "", rule, rel+"."+fn.Name+"#"+id.Name, where, "prefix-width-assumed",
				bad+": the name's length prefix is a uvarint — two bytes from 128 bytes on — so a computed width is one byte short for long label names and every entry of that name is decoded from the wrong position")
			return true
		})
	}
	if found == 0 {
		c.Incomplete(rule, rel, "", "no call of skipNAndName found")
	}
}

// C18 (also C21): every section owns its replica list. A section copied from another ring keeps the other
// section's backing array unless the list is allocated afresh; filling it in then overwrites the replicas of the
// ring it was copied from.
func rulesC18SectionsOwnReplicaStorage(c *Ctx) {
	const rel, rule = "pkg/receive", "sections-own-their-replica-lists"
	c.Rule(rule, "a section's replica list is never a reslice of an existing list", 1)
	p := c.Load("pkg/receive")
	if p == nil {
		return
	}
	n := 0
	for _, fn := range p.AllFuncs(true) {
		if !strings.HasSuffix(fn.Pkg.PkgPath, rel) || !strings.HasSuffix(p.Fset.Position(fn.Decl.Pos()).Filename, "/hashring.go") {
			continue
		}
		info := fn.Info()
		isSection := func(t types.Type) bool { return t != nil && isNamed(t, "pkg/receive", "section") }
		judge := func(rhs ast.Expr, at ast.Node, what string) {
			n++
			ok := true
			switch v := unparen(rhs).(type) {
			case *ast.SliceExpr:
				ok = false
			case *ast.Ident:
				ok = v.Name == "nil"
			case *ast.SelectorExpr:
				ok = false // another section's list
			}
			c.Check(ok, rule, fmt.Sprintf("%s.%s#%s", rel, fn.Name, what), p.Pos(at.Pos()), "replica-list-shared",
				"`"+stmtText(p, at)+"` gives a section a replica list that shares storage with another list: computing the replicas of the new ring overwrites those of the ring the section was copied from, so a tenant's placement changes when another tenant's sub-ring is built")
		}
		k := 0
		ast.Inspect(fn.Body(), func(m ast.Node) bool {
			switch v := m.(type) {
			case *ast.AssignStmt:
				for i, l := range v.Lhs {
					if se, ok := unparen(l).(*ast.SelectorExpr); ok && se.Sel.Name == "replicas" && isSection(info.TypeOf(se.X)) && i < len(v.Rhs) {
						// appending to the section's own list is how it is filled
						if call, ok := unparen(v.Rhs[i]).(*ast.CallExpr); ok {
							if id, ok := call.Fun.(*ast.Ident); ok && id.Name == "append" && len(call.Args) > 0 && canon(call.Args[0]) == canon(l) {
								continue
							}
						}
						k++
						judge(v.Rhs[i], v, fmt.Sprintf("assign%d", k))
					}
				}
			case *ast.CompositeLit:
				if isSection(info.TypeOf(v)) {
					for _, el := range v.Elts {
						if kv, ok := el.(*ast.KeyValueExpr); ok && canon(kv.Key) == "replicas" {
							k++
							judge(kv.Value, kv, fmt.Sprintf("literal%d", k))
						}
					}
				}
			}
			return true
		})
	}
	if n == 0 {
		c.Incomplete(rule, rel+"/hashring.go", "", "no assignment of a section's replica list found")
	}
}

// C24 (extension): a wrapper's Start returns the wrapped gate's error. A returned error variable that is never
// assigned (an inner `err :=` shadows it) is nil: the request is admitted although it never got a slot.
func rulesC24StartReturnsInnerError(c *Ctx) {
	const rel, rule = "pkg/gate", "start-returns-the-wrapped-error"
	c.Rule(rule, "what a Gate wrapper's Start returns is nil, the wrapped Start's result, or a variable assigned from it", 3)
	p := c.Load("pkg/gate")
	if p == nil {
		return
	}
	isGate := func(t types.Type) bool { return t != nil && isNamed(t, "pkg/gate", "Gate") }
	for _, fn := range p.AllFuncs(true) {
		if !strings.HasSuffix(fn.Pkg.PkgPath, rel) || fn.Decl.Recv == nil || fn.Decl.Name.Name != "Start" {
			continue
		}
		info := fn.Info()
		wraps := false
		ast.Inspect(fn.Body(), func(n ast.Node) bool {
			if call, ok := n.(*ast.CallExpr); ok {
				if se, ok := unparen(call.Fun).(*ast.SelectorExpr); ok && se.Sel.Name == "Start" && isGate(info.TypeOf(se.X)) {
					wraps = true
				}
			}
			return true
		})
		if !wraps {
			continue
		}
		bad, where := "", p.Pos(fn.Decl.Pos())
		ast.Inspect(fn.Body(), func(n ast.Node) bool {
			if _, ok := n.(*ast.FuncLit); ok {
				return false
			}
			r, ok := n.(*ast.ReturnStmt)
			if !ok || len(r.Results) != 1 {
				return true
			}
			id, ok := unparen(r.Results[0]).(*ast.Ident)
			if !ok || id.Name == "nil" {
				return true
			}
			o := objOf(info, id)
			assigned := false
			ast.Inspect(fn.Body(), func(m ast.Node) bool {
				switch v := m.(type) {
				case *ast.AssignStmt:
					for _, l := range v.Lhs {
						if lid, ok := unparen(l).(*ast.Ident); ok && objOf(info, lid) == o {
							assigned = true
						}
					}
				case *ast.ValueSpec:
					for i, nm := range v.Names {
						if info.Defs[nm] == o && i < len(v.Values) {
							assigned = true
						}
					}
				}
				return true
			})
			if !assigned {
				bad, where = "`"+stmtText(p, r)+"` returns `"+id.Name+"`, which is declared without a value and never assigned (an inner declaration of the same name shadows it)", p.Pos(r.Pos())
			}
			return true
		})
		c.Check(bad == "", rule, rel+"."+fn.Name, where, "start-error-lost",
			bad+": Start reports success although the wrapped gate refused — a request that gave up while queued is processed above the limit and its Done releases a slot it never held")
	}
}

// C30: the index-size filter re-plans after marking a block. The marks it hands to the wrapped planner always
// contain the marks already known from the bucket: every map that becomes that argument is filled from
// noCompBlocksFunc().
func rulesC30ReplanSeesKnownMarks(c *Ctx) {
	const rel, rule = "pkg/compact", "replan-sees-known-marks"
	c.Rule(rule, "every map the index-size filter passes to the wrapped planner was filled from the known no-compact marks", 1)
	p := c.Load("pkg/compact")
	if p == nil {
		return
	}
	fn := p.Func(rel, "largeTotalIndexSizeFilter", "plan")
	construct := rel + ".(*largeTotalIndexSizeFilter).plan"
	if fn == nil {
		c.Incomplete(rule, construct, "", "function not found")
		return
	}
	info := fn.Info()
	// the argument of the wrapped plan call
	var marks types.Object
	ast.Inspect(fn.Body(), func(n ast.Node) bool {
		call, ok := n.(*ast.CallExpr)
		if !ok || len(call.Args) != 2 {
			return true
		}
		if f := calleeOf(info, call); f != nil && f.Name() == "plan" && strings.Contains(f.FullName(), "tsdbBasedPlanner") {
			if id, ok := unparen(call.Args[0]).(*ast.Ident); ok {
				marks = objOf(info, id)
			}
		}
		return true
	})
	if marks == nil {
		c.Incomplete(rule, construct, p.Pos(fn.Decl.Pos()), "the wrapped plan call (or its marks argument) was not found")
		return
	}
	// variables that hold the known marks: x := t.noCompBlocksFunc(), and plain copies of such variables
	known := map[types.Object]bool{}
	for changed := true; changed; {
		changed = false
		ast.Inspect(fn.Body(), func(n ast.Node) bool {
			as, ok := n.(*ast.AssignStmt)
			if !ok || len(as.Lhs) != 1 || len(as.Rhs) != 1 {
				return true
			}
			id, ok := unparen(as.Lhs[0]).(*ast.Ident)
			if !ok {
				return true
			}
			o := objOf(info, id)
			if o == nil || known[o] {
				return true
			}
			switch v := unparen(as.Rhs[0]).(type) {
			case *ast.CallExpr:
				if strings.HasSuffix(canon(v.Fun), ".noCompBlocksFunc") {
					known[o], changed = true, true
				}
			case *ast.Ident:
				if known[objOf(info, v)] {
					known[o], changed = true, true
				}
			}
			return true
		})
	}
	n, bad, where := 0, "", p.Pos(fn.Decl.Pos())
	ast.Inspect(fn.Body(), func(nd ast.Node) bool {
		as, ok := nd.(*ast.AssignStmt)
		if !ok || len(as.Lhs) != 1 || len(as.Rhs) != 1 {
			return true
		}
		id, ok := unparen(as.Lhs[0]).(*ast.Ident)
		if !ok || objOf(info, id) != marks {
			return true
		}
		call, ok := unparen(as.Rhs[0]).(*ast.CallExpr)
		if !ok {
			return true
		}
		if mk, ok := call.Fun.(*ast.Ident); !ok || mk.Name != "make" {
			return true // taking over the known marks themselves is fine (they are then not copied, see below)
		}
		n++
		// a maps.Copy(marks, <known>) later in the same block
		blk, _ := p.ParentOf(fn.Pkg, as).(*ast.BlockStmt)
		filled := false
		if blk != nil {
			after := false
			for _, st := range blk.List {
				if st == ast.Stmt(as) {
					after = true
					continue
				}
				if !after {
					continue
				}
				ast.Inspect(st, func(m ast.Node) bool {
					cp, ok := m.(*ast.CallExpr)
					if !ok || len(cp.Args) != 2 {
						return true
					}
					if f := calleeOf(info, cp); f == nil || f.Name() != "Copy" || f.Pkg() == nil || f.Pkg().Path() != "maps" {
						return true
					}
					dst, ok1 := unparen(cp.Args[0]).(*ast.Ident)
					src, ok2 := unparen(cp.Args[1]).(*ast.Ident)
					if ok1 && ok2 && objOf(info, dst) == marks && known[objOf(info, src)] {
						filled = true
					}
					return true
				})
			}
		}
		if !filled {
			bad, where = "`"+stmtText(p, as)+"` starts a new set of marks that is not filled from the known no-compact marks", p.Pos(as.Pos())
		}
		return true
	})
	if n == 0 && !known[marks] {
		c.Incomplete(rule, construct, where, "the marks passed to the wrapped planner are neither the known marks nor a copy of them")
		return
	}
	c.Check(bad == "", rule, construct, where, "known-marks-lost",
		bad+": after the filter marks a block for its index size, the re-plan of the same call no longer excludes the blocks that were already marked no-compact, and a plan can include one")
}

// C40 (extension): the window of boundedSeriesIterator is closed on both ends. Seek gives up only for t > maxt;
// Next hands out a sample whenever t <= maxt.
func rulesC40WindowBoundsInclusive(c *Ctx) {
	const rel, rule = "pkg/dedup", "window-upper-bound-inclusive"
	c.Rule(rule, "boundedSeriesIterator treats maxt as part of the window in Seek and in Next", 2)
	p := c.Load("pkg/dedup")
	if p == nil {
		return
	}
	for _, m := range []string{"Seek", "Next"} {
		fn := p.Func(rel, "boundedSeriesIterator", m)
		construct := rel + ".(*boundedSeriesIterator)." + m
		if fn == nil {
			c.Incomplete(rule, construct, "", "function not found")
			continue
		}
		info := fn.Info()
		recv := fn.Decl.Recv.List[0].Names[0].Name
		maxt := &ast.SelectorExpr{X: ast.NewIdent(recv), Sel: ast.NewIdent("maxt")}
		n, bad, where := 0, "", p.Pos(fn.Decl.Pos())
		ast.Inspect(fn.Body(), func(nd ast.Node) bool {
			is, ok := nd.(*ast.IfStmt)
			if !ok || !strings.Contains(canon(is.Cond), recv+".maxt") || len(is.Body.List) == 0 {
				return true
			}
			ret, ok := is.Body.List[len(is.Body.List)-1].(*ast.ReturnStmt)
			if !ok || len(ret.Results) != 1 {
				return true
			}
			// the other operand of the comparison with maxt
			var tExpr ast.Expr
			ast.Inspect(is.Cond, func(k ast.Node) bool {
				if be, ok := k.(*ast.BinaryExpr); ok {
					switch {
					case canon(be.Y) == recv+".maxt":
						tExpr = be.X
					case canon(be.X) == recv+".maxt":
						tExpr = be.Y
					}
				}
				return true
			})
			if tExpr == nil {
				return true
			}
			n++
			givesUp := strings.HasSuffix(canon(ret.Results[0]), "ValNone")
			var holds, ok2 bool
			var cex atomEnv
			if givesUp {
				// cond ⇒ t > maxt
				holds, ok2, cex = impliedOnSmallDomain(info, []ast.Expr{is.Cond}, &ast.BinaryExpr{X: tExpr, Op: token.GTR, Y: maxt}, 0, 3)
			} else {
				// t <= maxt ⇒ cond
				holds, ok2, cex = impliedOnSmallDomain(info, []ast.Expr{&ast.BinaryExpr{X: tExpr, Op: token.LEQ, Y: maxt}}, is.Cond, 0, 3)
			}
			switch {
			case !ok2:
				bad, where = "the comparison `"+canon(is.Cond)+"` is not understood", p.Pos(is.Pos())
			case !holds && givesUp:
				bad, where = fmt.Sprintf("`%s` gives up although the position is still inside the window (e.g. %s)", canon(is.Cond), fmtAtomEnv(cex)), p.Pos(is.Pos())
			case !holds:
				bad, where = fmt.Sprintf("a sample inside the window is not handed out under `%s` (e.g. %s)", canon(is.Cond), fmtAtomEnv(cex)), p.Pos(is.Pos())
			}
			return true
		})
		if n == 0 {
			c.Incomplete(rule, construct, where, "no comparison with the window's upper bound found")
			continue
		}
		c.Check(bad == "", rule, construct, where, "window-upper-bound-exclusive",
			bad+": a merged chunk whose window is a single instant (mint == maxt) then yields no sample for sum/min/max/counter although the count aggregate has one")
	}
}

// C41: the split has one special case — a query with a single evaluation timestamp (start == end) becomes one
// sub-query at that timestamp. Any wider condition sends a multi-point query down the single-point path and its
// later timestamps are evaluated by no sub-query.
func rulesC41SinglePointCaseIsStartEqualsEnd(c *Ctx) {
	const rel, rule = "pkg/queryfrontend", "single-point-case-only-for-start-equals-end"
	c.Rule(rule, "the branch that emits one (start, start) sub-query is taken only when start == end", 1)
	p := c.Load("pkg/queryfrontend")
	if p == nil {
		return
	}
	fn := p.Func(rel, "", "splitQuery")
	construct := rel + ".splitQuery"
	if fn == nil {
		c.Incomplete(rule, construct, "", "function not found")
		return
	}
	info := fn.Info()
	n, bad, where := 0, "", p.Pos(fn.Decl.Pos())
	ast.Inspect(fn.Body(), func(nd ast.Node) bool {
		is, ok := nd.(*ast.IfStmt)
		if !ok {
			return true
		}
		// body contains WithStartEnd(x, x)
		var point ast.Expr
		for _, st := range is.Body.List {
			ast.Inspect(st, func(k ast.Node) bool {
				if call, ok := k.(*ast.CallExpr); ok && len(call.Args) == 2 {
					if se, ok := unparen(call.Fun).(*ast.SelectorExpr); ok && se.Sel.Name == "WithStartEnd" && canon(call.Args[0]) == canon(call.Args[1]) {
						point = call.Args[0]
					}
				}
				return true
			})
		}
		if point == nil {
			return true
		}
		n++
		// resolve `start := r.GetStart()` from the if-init so that start and end are related through the getters
		prem := []ast.Expr{}
		var endExpr ast.Expr
		ast.Inspect(is.Cond, func(k ast.Node) bool {
			if call, ok := k.(*ast.CallExpr); ok && strings.HasSuffix(canon(call.Fun), ".GetEnd") {
				endExpr = call
			}
			return true
		})
		if endExpr == nil {
			bad, where = "the single-point branch is taken under `"+canon(is.Cond)+"`, which does not mention the query's end", p.Pos(is.Pos())
			return true
		}
		if as, ok := is.Init.(*ast.AssignStmt); ok && len(as.Lhs) == 1 && len(as.Rhs) == 1 {
			prem = append(prem, &ast.BinaryExpr{X: as.Lhs[0], Op: token.EQL, Y: as.Rhs[0]})
		}
		// steps are positive
		ast.Inspect(is.Cond, func(k ast.Node) bool {
			if call, ok := k.(*ast.CallExpr); ok && strings.HasSuffix(canon(call.Fun), ".GetStep") {
				prem = append(prem, &ast.BinaryExpr{X: call, Op: token.GTR, Y: &ast.BasicLit{Kind: token.INT, Value: "0"}})
			}
			return true
		})
		prem = append(prem, &ast.BinaryExpr{X: point, Op: token.LEQ, Y: endExpr}, is.Cond)
		holds, ok2, cex := impliedOnSmallDomain(info, prem, &ast.BinaryExpr{X: point, Op: token.EQL, Y: endExpr}, 0, 3)
		switch {
		case !ok2:
			bad, where = "the condition `"+canon(is.Cond)+"` of the single-point branch is not understood", p.Pos(is.Pos())
		case !holds:
			bad, where = fmt.Sprintf("the single-point branch is also taken for a query with more than one timestamp (`%s`, e.g. %s)", canon(is.Cond), fmtAtomEnv(cex)), p.Pos(is.Pos())
		}
		return true
	})
	if n == 0 {
		c.Incomplete(rule, construct, where, "no single-point branch (WithStartEnd(x, x)) found")
		return
	}
	c.Check(bad == "", rule, construct, where, "multi-point-query-not-split",
		bad+": only its first timestamp is evaluated; the merged response silently lacks the others")
}

// C45: all replica labels are removed from one builder. A builder that is re-created inside the loop from a label
// set read before the loop starts each removal from the stale set, so the second removal restores the label the
// first one took out and replicas no longer compare equal.
func rulesC45ReplicaLabelsRemovedFromOneBuilder(c *Ctx) {
	const rel, rule = "pkg/rules", "replica-labels-removed-cumulatively"
	c.Rule(rule, "removeReplicaLabels deletes every replica label from the same builder (or re-reads the labels per removal)", 1)
	p := c.Load("pkg/rules")
	if p == nil {
		return
	}
	fn := p.Func(rel, "", "removeReplicaLabels")
	construct := rel + ".removeReplicaLabels"
	if fn == nil {
		c.Incomplete(rule, construct, "", "function not found")
		return
	}
	info := fn.Info()
	var loop *ast.RangeStmt
	ast.Inspect(fn.Body(), func(n ast.Node) bool {
		if r, ok := n.(*ast.RangeStmt); ok && loop == nil {
			loop = r
		}
		return true
	})
	if loop == nil {
		c.Incomplete(rule, construct, p.Pos(fn.Decl.Pos()), "no loop over the replica labels found")
		return
	}
	bad, where, dels := "", p.Pos(fn.Decl.Pos()), 0
	ast.Inspect(loop.Body, func(n ast.Node) bool {
		call, ok := n.(*ast.CallExpr)
		if !ok {
			return true
		}
		if se, ok := unparen(call.Fun).(*ast.SelectorExpr); ok && se.Sel.Name == "Del" && isLabelBuilder(info.TypeOf(se.X)) {
			dels++
		}
		f := calleeOf(info, call)
		if f == nil || f.Name() != "NewBuilder" || len(call.Args) != 1 {
			return true
		}
		// a builder made inside the loop: its base must be read inside the loop as well
		stale := false
		ast.Inspect(call.Args[0], func(k ast.Node) bool {
			if id, ok := k.(*ast.Ident); ok {
				if o, ok := info.Uses[id].(*types.Var); ok && !o.IsField() && o.Pos() < loop.Pos() {
					if _, isParam := paramIndexOf(fn, o); !isParam {
						stale = true
					}
				}
			}
			return true
		})
		if stale {
			bad, where = "`"+stmtText(p, call)+"` inside the loop starts from a label set that was read before the loop", p.Pos(call.Pos())
		}
		return true
	})
	if dels == 0 && bad == "" {
		bad = "no Del on a label builder inside the loop over the replica labels"
	}
	c.Check(bad == "", rule, construct, where, "removal-from-stale-set",
		bad+": with two replica labels on a rule the second removal restores the first label, the copies from different replicas keep differing labels and the rule is listed once per replica")
}

func paramIndexOf(fn *Fn, o types.Object) (int, bool) {
	i := 0
	for _, f := range fn.Decl.Type.Params.List {
		for _, nm := range f.Names {
			if fn.Info().Defs[nm] == o {
				return i, true
			}
			i++
		}
	}
	return -1, false
}
