package main

// Rules added after the sixth round of seeded changes (C13 C21 C23 C38).

import (
	"fmt"
	"go/ast"
	"go/token"
	"go/types"
	"strings"
)

func init() {
	addRules("C13", rulesC13KeyListsNotFilteredInPlace)
	addRules("C21", rulesC21ShardSizeInConfigurationOrder)
	addRules("C23", rulesC23CauseTiesKeepListingOrder)
	addRules("C38", rulesC38PerSeriesAccumulatorsReset)
}

// writesThroughSliceParam reports a statement of fn that appends to, or assigns an element of, a reslice of one
// of fn's slice parameters (an in-place filter): the caller's slice is rewritten underneath it.
func writesThroughSliceParam(p *Prog, fn *Fn) (string, token.Pos) {
	info := fn.Info()
	tainted := map[types.Object]bool{}
	if ps := fn.Decl.Type.Params; ps != nil {
		for _, f := range ps.List {
			for _, nm := range f.Names {
				if o := info.Defs[nm]; o != nil {
					if _, ok := o.Type().Underlying().(*types.Slice); ok {
						tainted[o] = true
					}
				}
			}
		}
	}
	if len(tainted) == 0 {
		return "", token.NoPos
	}
	// resliced: values that are (derived from) a reslice of a parameter — the in-place filter idiom x := p[:0]
	resliced := map[types.Object]bool{}
	var isP func(e ast.Expr) bool // rooted at a parameter
	isP = func(e ast.Expr) bool {
		switch v := unparen(e).(type) {
		case *ast.Ident:
			return tainted[objOf(info, v)]
		case *ast.SliceExpr:
			return isP(v.X)
		}
		return false
	}
	var isT func(e ast.Expr) bool
	isT = func(e ast.Expr) bool {
		switch v := unparen(e).(type) {
		case *ast.Ident:
			return resliced[objOf(info, v)]
		case *ast.SliceExpr:
			return isP(v.X) || isT(v.X)
		case *ast.CallExpr:
			if id, ok := v.Fun.(*ast.Ident); ok && id.Name == "append" && len(v.Args) > 0 {
				return isT(v.Args[0])
			}
		}
		return false
	}
	for changed := true; changed; {
		changed = false
		ast.Inspect(fn.Body(), func(n ast.Node) bool {
			if as, ok := n.(*ast.AssignStmt); ok && len(as.Lhs) == len(as.Rhs) {
				for i, r := range as.Rhs {
					if id, ok := unparen(as.Lhs[i]).(*ast.Ident); ok && isT(r) {
						if o := objOf(info, id); o != nil && !resliced[o] && !tainted[o] {
							resliced[o] = true
							changed = true
						}
					}
				}
			}
			return true
		})
	}
	bad, pos := "", token.NoPos
	ast.Inspect(fn.Body(), func(n ast.Node) bool {
		switch v := n.(type) {
		case *ast.CallExpr:
			if id, ok := v.Fun.(*ast.Ident); ok && id.Name == "append" && len(v.Args) > 1 && isT(v.Args[0]) {
				bad, pos = "`"+stmtText(p, v)+"` appends through "+canon(v.Args[0])+", a reslice of the caller's slice", v.Pos()
			}
		case *ast.AssignStmt:
			for _, l := range v.Lhs {
				if ix, ok := unparen(l).(*ast.IndexExpr); ok && (isT(ix.X) || isP(ix.X)) {
					bad, pos = "`"+stmtText(p, v)+"` overwrites an element of the caller's slice", v.Pos()
				}
			}
		}
		return true
	})
	return bad, pos
}

// C13: the remote index cache pairs what it fetched with what was asked by position: results[keys[i]] belongs to
// the i-th requested item. No helper of the package rewrites a key list it was handed (an in-place "unique" or
// "filter" shifts the keys under the caller, and one item's lookup is answered from another item's key).
func rulesC13KeyListsNotFilteredInPlace(c *Ctx) {
	const rel, rule = "pkg/store/cache", "key-lists-not-filtered-in-place"
	c.Rule(rule, "no function of the cache package appends to or overwrites through a reslice of a key list it was handed", 2)
	p := c.Load("pkg/store/cache")
	if p == nil {
		return
	}
	n := 0
	for _, fn := range p.AllFuncs(true) {
		if !strings.HasSuffix(fn.Pkg.PkgPath, rel) || strings.HasSuffix(p.Fset.Position(fn.Decl.Pos()).Filename, "_test.go") {
			continue
		}
		hasSlice := false
		if ps := fn.Decl.Type.Params; ps != nil {
			for _, f := range ps.List {
				if t := fn.Info().TypeOf(f.Type); t != nil {
					// key lists: []string (mergeRanges, which merges its []rng argument in place by design, is not one)
					if sl, ok := t.Underlying().(*types.Slice); ok {
						if b, ok := sl.Elem().Underlying().(*types.Basic); ok && b.Kind() == types.String {
							hasSlice = true
						}
					}
				}
			}
		}
		if !hasSlice {
			continue
		}
		n++
		bad, pos := writesThroughSliceParam(p, fn)
		where := p.Pos(fn.Decl.Pos())
		if pos.IsValid() {
			where = p.Pos(pos)
		}
		c.Check(bad == "", rule, rel+"."+fn.Name, where, "input-slice-rewritten",
			bad+": the caller still pairs results with the original list by position, so after the rewrite a repeated item is looked up under the next item's key and is answered with that item's data")
	}
	if n == 0 {
		c.Incomplete(rule, rel, "", "no function with a slice parameter found")
	}
}

// C21: which override gives a tenant its shard size follows the configuration order (first match). A decision made
// while ranging over a map depends on Go's randomised iteration order: the same tenant gets different shard sizes
// on different computations.
func rulesC21ShardSizeInConfigurationOrder(c *Ctx) {
	const rel, rule = "pkg/receive", "shard-size-follows-configuration-order"
	c.Rule(rule, "getShardSize decides inside ranges over slices only", 1)
	p := c.Load("pkg/receive")
	if p == nil {
		return
	}
	fn := p.Func(rel, "shuffleShardHashring", "getShardSize")
	construct := rel + ".(*shuffleShardHashring).getShardSize"
	if fn == nil {
		c.Incomplete(rule, construct, "", "function not found")
		return
	}
	info := fn.Info()
	bad, where, loops := "", p.Pos(fn.Decl.Pos()), 0
	ast.Inspect(fn.Body(), func(n ast.Node) bool {
		r, ok := n.(*ast.RangeStmt)
		if !ok {
			return true
		}
		loops++
		t := info.TypeOf(r.X)
		if t == nil {
			return true
		}
		if _, isMap := t.Underlying().(*types.Map); !isMap {
			return true
		}
		decides := false
		ast.Inspect(r.Body, func(m ast.Node) bool {
			switch m.(type) {
			case *ast.ReturnStmt:
				decides = true
			case *ast.BranchStmt:
				if m.(*ast.BranchStmt).Tok == token.BREAK {
					decides = true
				}
			}
			return true
		})
		if decides {
			bad, where = "the shard size is decided inside a range over the map `"+canon(r.X)+"`", p.Pos(r.Pos())
		}
		return true
	})
	if loops == 0 && bad == "" {
		bad = "no loop over the overrides found"
	}
	c.Check(bad == "", rule, construct, where, "shard-size-depends-on-map-order",
		bad+": a tenant matched by two overrides gets the size of whichever the randomised iteration visits first, so its sub-ring changes size between computations (cache eviction, reload, another receiver)")
}

// C23: when conflicts and transient failures tie at the failure threshold the cause is the first of the listed
// candidates (conflict before unavailable before not-ready): the sort of the candidates compares counts only and
// the candidates are sorted stably from their listing order. A secondary key re-orders ties — a request that
// conflicts alone already doom is answered 503 instead of 409, depending on the order of the responses.
func rulesC23CauseTiesKeepListingOrder(c *Ctx) {
	const rel, rule = "pkg/receive", "cause-ties-keep-listing-order"
	c.Rule(rule, "expectedErrors.Less compares the counts and nothing else", 1)
	p := c.Load("pkg/receive")
	if p == nil {
		return
	}
	fn := p.Func(rel, "expectedErrors", "Less")
	construct := rel + ".expectedErrors.Less"
	if fn == nil {
		c.Incomplete(rule, construct, "", "function not found")
		return
	}
	bad := ""
	body := fn.Decl.Body.List
	if len(body) != 1 {
		bad = "Less has more than one statement (a secondary key?)"
	} else if ret, ok := body[0].(*ast.ReturnStmt); !ok || len(ret.Results) != 1 {
		bad = "Less is not a single return"
	} else if be, ok := unparen(ret.Results[0]).(*ast.BinaryExpr); !ok || (be.Op != token.LSS && be.Op != token.GTR) ||
		!strings.HasSuffix(canon(be.X), ".count") || !strings.HasSuffix(canon(be.Y), ".count") {
		bad = "Less returns `" + canon(ret.Results[0]) + "`, not a comparison of the two counts"
	}
	c.Check(bad == "", rule, construct, p.Pos(fn.Decl.Pos()), "cause-tie-reordered",
		bad+": with equal counts the candidates must keep their listing order (conflict first); otherwise a tie between conflicts and transient failures at the failure threshold is reported as 503 for some arrival orders and 409 for others")
}

// C38: Downsample() processes one series per iteration of its postings loop and keeps its work lists across
// iterations to save allocations. Every such list that is appended to inside the loop is emptied at the top of
// the loop body; a list that is not carries the previous series' chunks into the next series' aggregates.
func rulesC38PerSeriesAccumulatorsReset(c *Ctx) {
	const rel, rule = "pkg/compact/downsample", "per-series-accumulators-reset"
	c.Rule(rule, "every work list declared outside Downsample's series loop and appended to inside it is emptied at the top of the loop body", 2)
	p := c.Load("pkg/compact/downsample")
	if p == nil {
		return
	}
	fn := p.Func(rel, "", "Downsample")
	construct := rel + ".Downsample"
	if fn == nil {
		c.Incomplete(rule, construct, "", "function not found")
		return
	}
	info := fn.Info()
	var loop *ast.ForStmt
	ast.Inspect(fn.Body(), func(n ast.Node) bool {
		if f, ok := n.(*ast.ForStmt); ok && loop == nil && f.Cond != nil && strings.HasSuffix(canon(f.Cond), ".Next()") {
			loop = f
		}
		return true
	})
	if loop == nil {
		c.Incomplete(rule, construct, p.Pos(fn.Decl.Pos()), "the loop over the postings was not found")
		return
	}
	// lists appended to inside the loop, declared outside it
	type acc struct {
		obj   types.Object
		first token.Pos
	}
	var accs []acc
	seen := map[types.Object]bool{}
	ast.Inspect(loop.Body, func(n ast.Node) bool {
		as, ok := n.(*ast.AssignStmt)
		if !ok || len(as.Lhs) != 1 || len(as.Rhs) != 1 {
			return true
		}
		call, ok := unparen(as.Rhs[0]).(*ast.CallExpr)
		if !ok {
			return true
		}
		if id, ok := call.Fun.(*ast.Ident); !ok || id.Name != "append" || len(call.Args) < 2 {
			return true
		}
		lid, ok := unparen(as.Lhs[0]).(*ast.Ident)
		if !ok || canon(call.Args[0]) != lid.Name {
			return true
		}
		o := objOf(info, lid)
		if o == nil || seen[o] || (o.Pos() >= loop.Body.Pos() && o.Pos() < loop.Body.End()) {
			return true
		}
		seen[o] = true
		accs = append(accs, acc{o, as.Pos()})
		return true
	})
	// lists handed to a callee by address that fills them (indexr.Series(ref, &builder, &chks)) count as well
	for i, a := range accs {
		reset := false
		for _, st := range loop.Body.List {
			if st.Pos() >= a.first {
				break
			}
			as, ok := st.(*ast.AssignStmt)
			if !ok || len(as.Lhs) != 1 || len(as.Rhs) != 1 {
				continue
			}
			lid, ok := unparen(as.Lhs[0]).(*ast.Ident)
			if !ok || objOf(info, lid) != a.obj {
				continue
			}
			switch v := unparen(as.Rhs[0]).(type) {
			case *ast.SliceExpr:
				if v.High != nil && canon(v.High) == "0" && canon(v.X) == lid.Name {
					reset = true
				}
			case *ast.Ident:
				reset = v.Name == "nil"
			case *ast.CallExpr:
				if id, ok := v.Fun.(*ast.Ident); ok && id.Name == "make" {
					reset = true
				}
			}
		}
		c.Check(reset, rule, fmt.Sprintf("%s#%s", construct, a.obj.Name()), p.Pos(a.first), "accumulator-not-reset",
			fmt.Sprintf("`%s` is declared outside the series loop, appended to inside it, and not emptied at the top of the loop body: the chunks of series 1..N-1 are aggregated into series N — counts and sums of a re-downsampled block no longer match its source, without any error", a.obj.Name()))
		_ = i
	}
	if len(accs) == 0 {
		c.Incomplete(rule, construct, p.Pos(loop.Pos()), "no work list carried across iterations found")
	}
}
