package main

// Rules added after the seventh round of seeded changes (C12 C14 C15 C17 C22 C42).

import (
	"fmt"
	"go/ast"
	"go/token"
	"go/types"
	"strings"
)

func init() {
	addRules("C12", rulesC12ChunkEndByDecoderError)
	addRules("C14", rulesC14SharedHitsUnderMutex)
	addRules("C15", rulesC15RemoveKeepsOrder)
	addRules("C17", rulesC17PutAlwaysAccounts)
	addRules("C22", rulesC22LocalWriterFailsPerTenant)
	addRules("C42", rulesC42FetchedPartsAlwaysMerged)
}

// C12: the streamed decoder learns that a snappy chunk is used up from the decoder's error, not from the value it
// decoded: 0 is a valid delta (a list starting at reference 0), so a value test truncates such lists.
func rulesC12ChunkEndByDecoderError(c *Ctx) {
	const rel, rule = "pkg/store", "chunk-end-detected-by-decoder-error"
	c.Rule(rule, "streamedDiffVarintPostings.Next never compares the decoded delta with a constant", 1)
	p := c.Load("pkg/store")
	if p == nil {
		return
	}
	fn := p.Func(rel, "streamedDiffVarintPostings", "Next")
	construct := rel + ".(*streamedDiffVarintPostings).Next"
	if fn == nil {
		c.Incomplete(rule, construct, "", "function not found")
		return
	}
	info := fn.Info()
	vals := map[types.Object]bool{}
	ast.Inspect(fn.Body(), func(n ast.Node) bool {
		as, ok := n.(*ast.AssignStmt)
		if !ok || len(as.Lhs) != 1 || len(as.Rhs) != 1 {
			return true
		}
		if call, ok := unparen(as.Rhs[0]).(*ast.CallExpr); ok && strings.HasSuffix(canon(call.Fun), ".Uvarint64") {
			if id, ok := unparen(as.Lhs[0]).(*ast.Ident); ok {
				vals[objOf(info, id)] = true
			}
		}
		return true
	})
	if len(vals) == 0 {
		c.Incomplete(rule, construct, p.Pos(fn.Decl.Pos()), "no decoded delta (Uvarint64) found")
		return
	}
	bad, where := "", p.Pos(fn.Decl.Pos())
	ast.Inspect(fn.Body(), func(n ast.Node) bool {
		be, ok := n.(*ast.BinaryExpr)
		if !ok || (be.Op != token.EQL && be.Op != token.NEQ) {
			return true
		}
		for _, pair := range [][2]ast.Expr{{be.X, be.Y}, {be.Y, be.X}} {
			if id, ok := unparen(pair[0]).(*ast.Ident); ok && vals[objOf(info, id)] {
				if _, isC := constInt(info, pair[1]); isC {
					bad, where = "`"+canon(be)+"` decides on the decoded value", p.Pos(be.Pos())
				}
			}
		}
		return true
	})
	c.Check(bad == "", rule, construct, where, "chunk-end-by-value",
		bad+": a zero delta is a legal entry (a list that starts at reference 0, a repeated reference), so the decoder stops or skips there and the decoded list differs from the encoded one without an error")
}

// C14: the parallel fetches of missing subranges share one result map; every access to it inside the fetch
// goroutines happens with the map's mutex held. An unlocked lookup racing with a locked insert aborts the process.
func rulesC14SharedHitsUnderMutex(c *Ctx) {
	const rel, rule = "pkg/store/cache", "shared-result-map-under-mutex"
	c.Rule(rule, "inside the parallel fetch goroutines the shared hits map is only touched with its mutex held", 1)
	p := c.Load("pkg/store/cache")
	if p == nil {
		return
	}
	fn := p.Func(rel, "CachingBucket", "fetchMissingSubranges")
	construct := rel + ".(*CachingBucket).fetchMissingSubranges"
	if fn == nil {
		c.Incomplete(rule, construct, "", "function not found")
		return
	}
	info := fn.Info()
	// the mutex: a local of type sync.Mutex; the map: the map-typed parameter/local indexed inside the goroutines
	var mu types.Object
	ast.Inspect(fn.Body(), func(n ast.Node) bool {
		if vs, ok := n.(*ast.ValueSpec); ok {
			for _, nm := range vs.Names {
				if o := info.Defs[nm]; o != nil && isMutexType(o.Type()) {
					mu = o
				}
			}
		}
		return true
	})
	if mu == nil {
		c.Incomplete(rule, construct, p.Pos(fn.Decl.Pos()), "no local mutex found")
		return
	}
	accesses, bad, where := 0, "", p.Pos(fn.Decl.Pos())
	ast.Inspect(fn.Body(), func(n ast.Node) bool {
		call, ok := n.(*ast.CallExpr)
		if !ok || len(call.Args) != 1 {
			return true
		}
		if se, ok := unparen(call.Fun).(*ast.SelectorExpr); !ok || se.Sel.Name != "Go" {
			return true
		}
		lit, ok := unparen(call.Args[0]).(*ast.FuncLit)
		if !ok {
			return true
		}
		sub := &Fn{Pkg: fn.Pkg, Lit: lit, Name: fn.Name + "$go"}
		spec := FlowSpec[bool]{
			Entry: false,
			Transfer: func(nd ast.Node, held bool) bool {
				if _, isDefer := nd.(*ast.DeferStmt); isDefer {
					return held
				}
				inspectNoLit(nd, func(x ast.Node) bool {
					if cl, ok := x.(*ast.CallExpr); ok {
						if se, ok := unparen(cl.Fun).(*ast.SelectorExpr); ok {
							if id, ok := unparen(se.X).(*ast.Ident); ok && objOf(info, id) == mu {
								switch se.Sel.Name {
								case "Lock":
									held = true
								case "Unlock":
									held = false
								}
							}
						}
					}
					return true
				})
				return held
			},
			Join:  func(a, b bool) bool { return a && b },
			Equal: func(a, b bool) bool { return a == b },
		}
		r := runFlow(p, sub, spec)
		ast.Inspect(lit.Body, func(m ast.Node) bool {
			ix, ok := m.(*ast.IndexExpr)
			if !ok {
				return true
			}
			id, ok := unparen(ix.X).(*ast.Ident)
			if !ok {
				return true
			}
			o := objOf(info, id)
			if o == nil {
				return true
			}
			if _, isMap := o.Type().Underlying().(*types.Map); !isMap || (o.Pos() >= lit.Pos() && o.Pos() < lit.End()) {
				return true // not a map, or a map local to the goroutine
			}
			// only maps some goroutine writes (read-only shared maps need no lock)
			written := false
			ast.Inspect(lit.Body, func(k ast.Node) bool {
				if as, ok := k.(*ast.AssignStmt); ok {
					for _, l := range as.Lhs {
						if wx, ok := unparen(l).(*ast.IndexExpr); ok {
							if wid, ok := unparen(wx.X).(*ast.Ident); ok && objOf(info, wid) == o {
								written = true
							}
						}
					}
				}
				return true
			})
			if !written {
				return true
			}
			accesses++
			if held, ok := r.Before(ix); !ok || !held {
				bad, where = "`"+canon(ix)+"` is evaluated inside a fetch goroutine without `"+mu.Name()+"` held", p.Pos(ix.Pos())
			}
			return true
		})
		return true
	})
	if accesses == 0 {
		c.Incomplete(rule, construct, where, "no access to a shared map inside the fetch goroutines found")
		return
	}
	c.Check(bad == "", rule, construct, where, "shared-map-unlocked",
		bad+": with two or more missing ranges fetched in parallel the unlocked access races with another goroutine's insert and the runtime aborts the process (concurrent map read and map write) — the range read never returns")
}

// C15: getFor walks each resolution's blocks in min-time order and stops at the first block that starts after the
// range. add re-sorts; remove must keep the order: it deletes by shifting, never by moving another element into the
// hole.
func rulesC15RemoveKeepsOrder(c *Ctx) {
	const rel, rule = "pkg/store", "remove-keeps-blocks-ordered"
	c.Rule(rule, "bucketBlockSet.remove does not move a block into the removed slot", 1)
	p := c.Load("pkg/store")
	if p == nil {
		return
	}
	fn := p.Func(rel, "bucketBlockSet", "remove")
	construct := rel + ".(*bucketBlockSet).remove"
	if fn == nil {
		c.Incomplete(rule, construct, "", "function not found")
		return
	}
	info := fn.Info()
	isBlockSlice := func(t types.Type) bool {
		sl, ok := t.Underlying().(*types.Slice)
		if !ok {
			return false
		}
		_, isPtr := sl.Elem().(*types.Pointer)
		return isPtr && strings.HasSuffix(sl.Elem().String(), "bucketBlock")
	}
	bad, where, rewrites := "", p.Pos(fn.Decl.Pos()), 0
	ast.Inspect(fn.Body(), func(n ast.Node) bool {
		as, ok := n.(*ast.AssignStmt)
		if !ok {
			return true
		}
		for i, l := range as.Lhs {
			if i >= len(as.Rhs) {
				continue
			}
			ix, ok := unparen(l).(*ast.IndexExpr)
			if !ok {
				continue
			}
			if t := info.TypeOf(ix.X); t != nil && isBlockSlice(t) {
				// bs[j] = <something>: an element is overwritten
				if !isNilIdent(as.Rhs[i]) {
					bad, where = "`"+stmtText(p, as)+"` moves a block into another position", p.Pos(as.Pos())
				}
				continue
			}
			// s.blocks[i] = append(bs[:j], bs[j+1:]...)
			if t := info.TypeOf(l); t != nil && isBlockSlice(t) {
				rewrites++
				call, ok := unparen(as.Rhs[i]).(*ast.CallExpr)
				okShape := false
				if ok {
					if id, isID := call.Fun.(*ast.Ident); isID && id.Name == "append" && len(call.Args) == 2 && call.Ellipsis.IsValid() {
						a, okA := unparen(call.Args[0]).(*ast.SliceExpr)
						b, okB := unparen(call.Args[1]).(*ast.SliceExpr)
						if okA && okB && a.Low == nil && a.High != nil && b.High == nil && b.Low != nil && canon(a.X) == canon(b.X) && canon(b.Low) == canon(a.High)+"+1" {
							okShape = true
						}
					}
					if f := calleeOf(info, call); f != nil && f.Pkg() != nil && f.Pkg().Path() == "slices" && f.Name() == "Delete" {
						okShape = true
					}
				}
				if !okShape {
					bad, where = "`"+stmtText(p, as)+"` does not delete by shifting the tail down", p.Pos(as.Pos())
				}
			}
		}
		return true
	})
	if rewrites == 0 && bad == "" {
		bad = "no order-preserving deletion (append(bs[:j], bs[j+1:]...) or slices.Delete) found"
	}
	c.Check(bad == "", rule, construct, where, "remove-reorders-blocks",
		bad+": after the removal a newer block can stand in front of older ones; getFor stops at the first block that starts after the range and never selects the older blocks behind it — instants covered by loaded blocks are answered with nothing")
}

// C17: Get charges every buffer it hands out to usedTotal whatever the budget is, so Put gives the charge back on
// every path except the nil buffer.
func rulesC17PutAlwaysAccounts(c *Ctx) {
	const rel, rule = "pkg/pool", "put-gives-the-charge-back"
	c.Rule(rule, "every exit of BucketedPool.Put for a non-nil buffer has updated usedTotal", 1)
	p := c.Load("pkg/pool")
	if p == nil {
		return
	}
	fn := p.Func(rel, "BucketedPool", "Put")
	construct := rel + ".(*BucketedPool).Put"
	if fn == nil {
		c.Incomplete(rule, construct, "", "function not found")
		return
	}
	info := fn.Info()
	e := newE3(p, fn, []Ev{{Name: "uncharge", MatchNode: func(i *types.Info, n ast.Node) bool {
		as, ok := n.(*ast.AssignStmt)
		if !ok {
			return false
		}
		for _, l := range as.Lhs {
			if se, ok := unparen(l).(*ast.SelectorExpr); ok && se.Sel.Name == "usedTotal" {
				return true
			}
		}
		return false
	}}})
	bad, where, exits := "", p.Pos(fn.Decl.Pos()), 0
	for _, ex := range e.Exits() {
		if ex.Panic {
			continue
		}
		exits++
		if ex.Bits["uncharge"]&eNo == 0 {
			continue
		}
		// the nil-buffer exit is the only one that owes nothing
		owesNothing := false
		if ex.Ret != nil {
			for _, g := range guardsOf(p, fn, ex.Ret) {
				if x, nonNil, ok := nilTest(info, g.Cond); ok && !nonNil == g.Pol {
					if id, ok := unparen(x).(*ast.Ident); ok {
						if _, isParam := paramIndexOf(fn, objOf(info, id)); isParam {
							owesNothing = true
						}
					}
				}
			}
		}
		if !owesNothing {
			bad, where = "Put can return at "+ex.Pos+" without updating usedTotal", ex.Pos
		}
	}
	if exits == 0 {
		bad = "no exit found"
	}
	c.Check(bad == "", rule, construct, where, "charge-kept",
		bad+": Get charged the buffer, so the pool's usage never returns to zero on that path (for a pool without a budget it only ever grows)")
}

// C22: the local replica's vote counts like any other. The local writer stores the tenants of a request one by one
// and fails the request at the first tenant that cannot be stored; an error that is overwritten by the next
// tenant's success turns a failed write into a success vote.
func rulesC22LocalWriterFailsPerTenant(c *Ctx) {
	const rel, rule = "pkg/receive", "local-write-error-ends-the-request"
	c.Rule(rule, "localAsyncWriter.RemoteWrite tests every tenant's write error inside the loop and returns it", 1)
	p := c.Load("pkg/receive")
	if p == nil {
		return
	}
	fn := p.Func(rel, "localAsyncWriter", "RemoteWrite")
	construct := rel + ".(*localAsyncWriter).RemoteWrite"
	if fn == nil {
		c.Incomplete(rule, construct, "", "function not found")
		return
	}
	info := fn.Info()
	n, bad, where := 0, "", p.Pos(fn.Decl.Pos())
	ast.Inspect(fn.Body(), func(nd ast.Node) bool {
		loop, ok := nd.(*ast.RangeStmt)
		if !ok {
			return true
		}
		ast.Inspect(loop.Body, func(m ast.Node) bool {
			call, ok := m.(*ast.CallExpr)
			if !ok {
				return true
			}
			se, ok := unparen(call.Fun).(*ast.SelectorExpr)
			if !ok || se.Sel.Name != "Write" || errResultIndex(info, call) < 0 {
				return true
			}
			n++
			// the call is the init (or the statement before) of an `if err != nil { return … non-nil … }` inside the loop
			found, term, body := failEdgeTerminates(p, fn, call)
			okRet := false
			if found && term && body != nil && len(body.List) > 0 {
				if r, isRet := body.List[len(body.List)-1].(*ast.ReturnStmt); isRet && len(r.Results) > 0 && !isNilIdent(r.Results[len(r.Results)-1]) {
					okRet = within(r, loop.Body.Pos(), loop.Body.End())
				}
			}
			if !okRet {
				bad, where = "the error of `"+stmtText(p, call)+"` is not returned from inside the per-tenant loop", p.Pos(call.Pos())
			}
			return true
		})
		return true
	})
	if n == 0 {
		c.Incomplete(rule, construct, where, "no per-tenant write found")
		return
	}
	c.Check(bad == "", rule, construct, where, "tenant-write-error-overwritten",
		bad+": a later tenant's success overwrites it, the local replica reports success for series it did not store, and fanoutForward counts that towards the quorum")
}

// C42: what handleHit fetched for the uncached parts of a partial hit is always merged into the answer; whether a
// part may also be stored is decided afterwards. A `continue` in front of the append drops fetched samples from
// the response.
func rulesC42FetchedPartsAlwaysMerged(c *Ctx) {
	const rel, rule = "internal/cortex/querier/queryrange", "fetched-parts-always-merged"
	c.Rule(rule, "in handleHit every fetched response is appended to the answer before any continue", 1)
	p := c.Load("internal/cortex/querier/queryrange")
	if p == nil {
		return
	}
	fn := p.Func(rel, "resultsCache", "handleHit")
	construct := rel + ".(resultsCache).handleHit"
	if fn == nil {
		c.Incomplete(rule, construct, "", "function not found")
		return
	}
	n, bad, where := 0, "", p.Pos(fn.Decl.Pos())
	ast.Inspect(fn.Body(), func(nd ast.Node) bool {
		loop, ok := nd.(*ast.RangeStmt)
		if !ok {
			return true
		}
		// the statement of the loop body that appends <elem>.Response
		appendIdx := -1
		for i, st := range loop.Body.List {
			if as, ok := st.(*ast.AssignStmt); ok && len(as.Rhs) == 1 {
				if call, ok := unparen(as.Rhs[0]).(*ast.CallExpr); ok {
					if id, ok := call.Fun.(*ast.Ident); ok && id.Name == "append" && len(call.Args) == 2 && strings.HasSuffix(canon(call.Args[1]), ".Response") {
						appendIdx = i
					}
				}
			}
		}
		if appendIdx < 0 {
			return true
		}
		n++
		for i, st := range loop.Body.List {
			if i >= appendIdx {
				break
			}
			ast.Inspect(st, func(m ast.Node) bool {
				if b, ok := m.(*ast.BranchStmt); ok && (b.Tok == token.CONTINUE || b.Tok == token.BREAK) {
					bad, where = fmt.Sprintf("`%s` at %s comes before the fetched response is appended to the answer", b.Tok, p.Pos(b.Pos())), p.Pos(b.Pos())
				}
				return true
			})
		}
		return true
	})
	if n == 0 {
		c.Incomplete(rule, construct, where, "no loop appending fetched responses found")
		return
	}
	c.Check(bad == "", rule, construct, where, "fetched-part-dropped",
		bad+": a part that must not be stored (an @ modifier beyond the sub-range, Cache-Control: no-store) is then missing from the extended answer, which comes back with the cached part only and status success")
}
