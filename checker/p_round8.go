package main

// Rules added after the eighth (short) round of seeded changes (C03 C24 C25).

import (
	"go/ast"
	"go/types"
	"strings"
)

func init() {
	addRules("C03", rulesC03RingSlotPerRoomCheck)
	addRules("C24", rulesC24WriteGateIsTheGateItself)
	addRules("C25", rulesC25PooledSymbolSlotsAlwaysWritten)
}

// C03: the lazy response set's ring buffer holds N-1 elements; a slot is written only after isFull() was seen
// false, one slot per check. A write inside a loop after a single (computed) room test overwrites unread
// responses once the buffer has wrapped.
func rulesC03RingSlotPerRoomCheck(c *Ctx) {
	const rel, rule = "pkg/store", "ring-slot-written-after-room-check"
	c.Rule(rule, "every write into the ring buffer follows the isFull() wait and is not repeated in a loop", 1)
	p := c.Load("pkg/store")
	if p == nil {
		return
	}
	n := 0
	for _, fn := range p.AllFuncs(true) {
		if !strings.HasSuffix(fn.Pkg.PkgPath, rel) || !strings.HasPrefix(fn.Name, "(*ringBuffer).") {
			continue
		}
		ast.Inspect(fn.Body(), func(nd ast.Node) bool {
			as, ok := nd.(*ast.AssignStmt)
			if !ok {
				return true
			}
			for _, l := range as.Lhs {
				ix, ok := unparen(l).(*ast.IndexExpr)
				if !ok || !strings.HasSuffix(canon(ix.X), ".bufferedResponses") {
					continue
				}
				n++
				bad := ""
				// not inside a loop
				inLoop := false
				for par := p.ParentOf(fn.Pkg, as); par != nil && par != fn.Node(); par = p.ParentOf(fn.Pkg, par) {
					switch par.(type) {
					case *ast.ForStmt, *ast.RangeStmt:
						inLoop = true
					}
				}
				if inLoop {
					bad = "the write is repeated in a loop after one room test"
				}
				// preceded by `for X.isFull() … { Wait }`
				waited := false
				for _, st := range fn.Decl.Body.List {
					if st.Pos() >= as.Pos() {
						break
					}
					if f, ok := st.(*ast.ForStmt); ok && f.Cond != nil && strings.Contains(canon(f.Cond), ".isFull()") {
						waited = true
					}
				}
				if !waited && bad == "" {
					bad = "the write is not preceded by the wait on isFull()"
				}
				c.Check(bad == "", rule, rel+"."+fn.Name, p.Pos(as.Pos()), "ring-slot-overwritten",
					"`"+stmtText(p, as)+"`: "+bad+": once the ring has wrapped a computed free-slot count is wrong, unread responses are overwritten and series disappear from the lazily merged result without any warning")
			}
			return true
		})
	}
	if n == 0 {
		c.Incomplete(rule, rel+".ringBuffer", "", "no write into the ring buffer found")
	}
}

// C24: a request calls Start and Done on the same gate object. Limiter.WriteGate hands out the gate itself (read
// under the lock); a view that re-reads the field on every call would send a request's Done to the gate installed
// by a later limits reload.
func rulesC24WriteGateIsTheGateItself(c *Ctx) {
	const rel, rule = "pkg/receive", "write-gate-identity-stable"
	c.Rule(rule, "Limiter.WriteGate returns the writeGate field itself", 1)
	p := c.Load("pkg/receive")
	if p == nil {
		return
	}
	fn := p.Func(rel, "Limiter", "WriteGate")
	construct := rel + ".(*Limiter).WriteGate"
	if fn == nil {
		c.Incomplete(rule, construct, "", "function not found")
		return
	}
	recv := ""
	if len(fn.Decl.Recv.List[0].Names) == 1 {
		recv = fn.Decl.Recv.List[0].Names[0].Name
	}
	n, bad, where := 0, "", p.Pos(fn.Decl.Pos())
	ast.Inspect(fn.Body(), func(nd ast.Node) bool {
		r, ok := nd.(*ast.ReturnStmt)
		if !ok || len(r.Results) != 1 {
			return true
		}
		n++
		if txt := expandDefText(fn, fn.Info(), r.Results[0]); txt != recv+".writeGate" {
			bad, where = "WriteGate returns `"+canon(r.Results[0])+"`", p.Pos(r.Pos())
		}
		return true
	})
	if n == 0 {
		bad = "no return found"
	}
	c.Check(bad == "", rule, construct, where, "write-gate-indirect",
		bad+", not the gate object: a request that started on the old gate calls Done on the gate a reload installed meanwhile — that gate panics (more operations done than started) or frees a slot another request holds, so more than the configured number are processed")
}

// C25: the decoded symbol table lives in a pooled slice that is truncated, not cleared, when it is returned. Every
// slot the decoder hands out is written on every path (an empty symbol is written as ""), otherwise a label value
// of an earlier request — possibly another tenant's — shows through.
func rulesC25PooledSymbolSlotsAlwaysWritten(c *Ctx) {
	const rel, rule = "pkg/receive/writecapnp", "pooled-symbol-slots-always-written"
	c.Rule(rule, "functions that take the symbol slice from the pool fill it by append, or assign every index unconditionally", 1)
	p := c.Load("pkg/receive/writecapnp")
	if p == nil {
		return
	}
	n := 0
	for _, fn := range p.AllFuncs(true) {
		if !strings.HasSuffix(fn.Pkg.PkgPath, rel) {
			continue
		}
		usesPool := false
		ast.Inspect(fn.Body(), func(nd ast.Node) bool {
			if call, ok := nd.(*ast.CallExpr); ok && strings.HasSuffix(canon(call.Fun), "symbolsPool.Get") {
				usesPool = true
			}
			return true
		})
		if !usesPool {
			continue
		}
		n++
		info := fn.Info()
		bad, where := "", p.Pos(fn.Decl.Pos())
		ast.Inspect(fn.Body(), func(nd ast.Node) bool {
			as, ok := nd.(*ast.AssignStmt)
			if !ok {
				return true
			}
			for _, l := range as.Lhs {
				ix, ok := unparen(l).(*ast.IndexExpr)
				if !ok {
					continue
				}
				t := info.TypeOf(ix.X)
				if t == nil {
					continue
				}
				sl, ok := t.Underlying().(*types.Slice)
				if !ok {
					continue
				}
				if b, ok := sl.Elem().Underlying().(*types.Basic); !ok || b.Kind() != types.String {
					continue
				}
				// conditional? (an enclosing if inside the enclosing loop, without an else that assigns the same slot)
				var child ast.Node = as
				for par := p.ParentOf(fn.Pkg, as); par != nil && par != fn.Node(); par = p.ParentOf(fn.Pkg, par) {
					if _, isLoop := par.(*ast.ForStmt); isLoop {
						break
					}
					if _, isLoop := par.(*ast.RangeStmt); isLoop {
						break
					}
					if is, ok := par.(*ast.IfStmt); ok && (child == ast.Node(is.Body) || child == is.Else) {
						other := is.Else
						if child == is.Else {
							other = is.Body
						}
						assigns := false
						if other != nil {
							ast.Inspect(other, func(k ast.Node) bool {
								if a2, ok := k.(*ast.AssignStmt); ok {
									for _, l2 := range a2.Lhs {
										if canon(l2) == canon(l) {
											assigns = true
										}
									}
								}
								return true
							})
						}
						if !assigns {
							bad, where = "`"+stmtText(p, as)+"` fills the pooled slot only under `"+canon(is.Cond)+"`", p.Pos(as.Pos())
						}
					}
					child = par
				}
			}
			return true
		})
		c.Check(bad == "", rule, rel+"."+fn.Name, where, "pooled-slot-left-stale",
			bad+": on the other branch the slot keeps the string an earlier request left there, so an empty label value decodes as a value of a previous (possibly another tenant's) request")
	}
	if n == 0 {
		c.Incomplete(rule, rel, "", "no function taking the symbol slice from the pool found")
	}
}
