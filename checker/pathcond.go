package main

import (
	"go/ast"
	"go/token"
	"go/types"
	"sort"
	"strings"
)

// Path conditions for structured code: the conjunction of conditions under which control reaches
// a node, derived from (a) the enclosing if/else branches and (b) preceding sibling statements
// of the form `if c { ...; continue|return|break|panic }` in every enclosing block (their
// negation holds afterwards). Loops and switch statements contribute nothing (sound: the
// extracted conjunction is implied by reaching the node; a condition that is missed only makes
// the extracted guard weaker, which the comparison with the specification then reports).

type guardCond struct {
	Cond ast.Expr
	Pol  bool // true: Cond holds, false: !Cond holds
	Init ast.Stmt
}

func terminates(list []ast.Stmt) bool {
	if len(list) == 0 {
		return false
	}
	switch s := list[len(list)-1].(type) {
	case *ast.ReturnStmt:
		return true
	case *ast.BranchStmt:
		return s.Tok == token.CONTINUE || s.Tok == token.BREAK || s.Tok == token.GOTO
	case *ast.ExprStmt:
		if call, ok := s.X.(*ast.CallExpr); ok {
			if id, ok := call.Fun.(*ast.Ident); ok && id.Name == "panic" {
				return true
			}
		}
	case *ast.BlockStmt:
		return terminates(s.List)
	}
	return false
}

// guardsOf returns the path condition of node n inside fn (outermost first). It stops at the
// nearest enclosing function literal or at fn.
func guardsOf(p *Prog, fn *Fn, n ast.Node) []guardCond {
	var out []guardCond
	child := n
	for par := p.ParentOf(fn.Pkg, n); par != nil; par = p.ParentOf(fn.Pkg, par) {
		switch v := par.(type) {
		case *ast.IfStmt:
			if child == ast.Node(v.Body) {
				out = append(out, guardCond{v.Cond, true, v.Init})
			} else if v.Else != nil && child == ast.Node(v.Else) {
				out = append(out, guardCond{v.Cond, false, v.Init})
			}
		case *ast.BlockStmt:
			out = append(out, precedingExits(v.List, child)...)
		case *ast.CaseClause:
			out = append(out, precedingExits(v.Body, child)...)
		case *ast.CommClause:
			out = append(out, precedingExits(v.Body, child)...)
		case *ast.FuncLit:
			reverseGuards(out)
			return out
		}
		if par == fn.Node() {
			break
		}
		child = par
	}
	reverseGuards(out)
	return out
}

func reverseGuards(g []guardCond) {
	for i, j := 0, len(g)-1; i < j; i, j = i+1, j-1 {
		g[i], g[j] = g[j], g[i]
	}
}

func precedingExits(list []ast.Stmt, child ast.Node) []guardCond {
	var out []guardCond
	for i := len(list) - 1; i >= 0; i-- {
		st := list[i]
		if st.Pos() >= child.Pos() {
			continue
		}
		ifs, ok := st.(*ast.IfStmt)
		if !ok {
			continue
		}
		if ifs.Else == nil && terminates(ifs.Body.List) {
			out = append(out, guardCond{ifs.Cond, false, ifs.Init})
		}
	}
	return out
}

// evalGuards evaluates the conjunction of guards with an E9 evaluator.
func (x *E9) evalGuards(gs []guardCond, env map[string]int64) (bool, error) {
	for _, g := range gs {
		v, err := x.eval(g.Cond, env)
		if err != nil {
			return false, err
		}
		if v.b != g.Pol {
			return false, nil
		}
	}
	return true, nil
}

func guardsString(gs []guardCond) string {
	var parts []string
	for _, g := range gs {
		s := exprString(g.Cond)
		if !g.Pol {
			s = "!(" + s + ")"
		}
		parts = append(parts, s)
	}
	return strings.Join(parts, " && ")
}

// e9TableD is e9Table with a per-atom domain.
func e9TableD(atoms []string, domains map[string][]int64, pre func(env map[string]int64) bool,
	got func(env map[string]int64) (int64, error), want func(env map[string]int64) int64) (int, string, error) {
	env := map[string]int64{}
	n := 0
	var rec func(i int) (string, error)
	rec = func(i int) (string, error) {
		if i == len(atoms) {
			if pre != nil && !pre(env) {
				return "", nil
			}
			n++
			g, err := got(env)
			if err != nil {
				return "", err
			}
			if w := want(env); g != w {
				var ks []string
				for _, a := range atoms {
					ks = append(ks, a+"="+itoa(env[a]))
				}
				sort.Strings(ks)
				return "code=" + itoa(g) + " spec=" + itoa(w) + " at {" + strings.Join(ks, " ") + "}", nil
			}
			return "", nil
		}
		for _, d := range domains[atoms[i]] {
			env[atoms[i]] = d
			if cx, err := rec(i + 1); cx != "" || err != nil {
				return cx, err
			}
		}
		return "", nil
	}
	cx, err := rec(0)
	return n, cx, err
}

func itoa(v int64) string {
	neg := v < 0
	if neg {
		v = -v
	}
	if v == 0 {
		return "0"
	}
	var b []byte
	for v > 0 {
		b = append([]byte{byte('0' + v%10)}, b...)
		v /= 10
	}
	if neg {
		return "-" + string(b)
	}
	return string(b)
}

// callSitesOf lists every call (in declared functions and literals of the loaded roots) whose
// callee has the given full name, with the enclosing declared function.
type callSite struct {
	Fn   *Fn
	Call *ast.CallExpr
}

func callSitesOf(p *Prog, fullNames ...string) []callSite {
	var out []callSite
	for _, fn := range p.AllFuncs(true) {
		info := fn.Info()
		ast.Inspect(fn.Body(), func(n ast.Node) bool {
			if call, ok := n.(*ast.CallExpr); ok && isCallTo(info, call, fullNames...) {
				out = append(out, callSite{fn, call})
			}
			return true
		})
	}
	return out
}

// whoMayCall compares the enclosing functions of all call sites with an allow-list
// (function display names with package: "pkg/compact.(*BlocksCleaner).DeleteMarkedBlocks").
func whoMayCall(c *Ctx, p *Prog, rule, api string, allow map[string]string, fullNames ...string) {
	sites := callSitesOf(p, fullNames...)
	if len(sites) == 0 {
		c.Incomplete(rule, api+"#callers", "", "no call site of "+api+" found (API moved?)")
		return
	}
	for _, s := range sites {
		name := relPkg(s.Fn.Pkg.PkgPath) + "." + s.Fn.Name
		if why, ok := allow[name]; ok {
			c.OK(rule, api+"←"+name, p.Pos(s.Call.Pos()), why)
		} else {
			c.Bad(rule, api+"←"+name, p.Pos(s.Call.Pos()), "unlisted-caller:"+name, name+" calls "+api+" but is not in the audited list of callers; every destructive call site must be reviewed against the property's guards")
		}
	}
}

var _ = types.Universe

// expandStr prints e with every local that has exactly one defining expression replaced by that
// expression (conversions stripped), so that `rel := off - m.start; buf[rel:]` and `buf[off-m.start:]`
// print alike. Parentheses are kept only around expanded sub-terms of a different precedence.
func expandStr(fn *Fn, info *types.Info, e ast.Expr, depth int) string {
	e = stripConv(info, unparen(e))
	switch v := e.(type) {
	case *ast.BinaryExpr:
		l, r := expandStr(fn, info, v.X, depth), expandStr(fn, info, v.Y, depth)
		if rb, ok := stripConv(info, unparen(v.Y)).(*ast.BinaryExpr); ok && rb.Op.Precedence() <= v.Op.Precedence() {
			r = "(" + r + ")"
		}
		if lb, ok := stripConv(info, unparen(v.X)).(*ast.BinaryExpr); ok && lb.Op.Precedence() < v.Op.Precedence() {
			l = "(" + l + ")"
		}
		return l + v.Op.String() + r
	case *ast.Ident:
		if depth < 4 {
			if o := info.Uses[v]; o != nil {
				if _, isVar := o.(*types.Var); isVar {
					if d := singleDef(fn, info, o); d != nil {
						if _, isBin := stripConv(info, unparen(d)).(*ast.BinaryExpr); isBin {
							return expandStr(fn, info, d, depth+1)
						}
					}
				}
			}
		}
	}
	return canon(e)
}
