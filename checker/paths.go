package main

import (
	"fmt"
	"go/ast"
	"go/token"
	"go/types"
	"strings"
)

// Structured path enumeration for small loop bodies: if / else chains, continue, break, return and
// straight-line statements. Each path lists the atomic conditions it took (with polarity, compound
// conditions decomposed by refine where one polarity determines the atoms), the statements it
// executed and how it ends.

type spCond struct {
	Atom ast.Expr
	Pol  bool
}

type sPath struct {
	Conds []spCond
	Acts  []ast.Stmt
	End   string // "next" (falls off the body / continue), "break", "return"
	Ret   *ast.ReturnStmt
	// Opaque: a compound condition was taken with a polarity that does not determine its atoms
	Opaque []ast.Expr
}

func (p sPath) clone() sPath {
	q := sPath{End: p.End, Ret: p.Ret}
	q.Conds = append(q.Conds, p.Conds...)
	q.Acts = append(q.Acts, p.Acts...)
	q.Opaque = append(q.Opaque, p.Opaque...)
	return q
}

func enumPaths(list []ast.Stmt) ([]sPath, error) {
	return enumFrom(list, []sPath{{}})
}

func enumFrom(list []ast.Stmt, open []sPath) ([]sPath, error) {
	var done []sPath
	for _, st := range list {
		if len(open) == 0 {
			break
		}
		if len(open)+len(done) > 4096 {
			return nil, fmt.Errorf("too many paths")
		}
		switch v := st.(type) {
		case *ast.IfStmt:
			var next []sPath
			for _, pth := range open {
				if v.Init != nil {
					pth.Acts = append(pth.Acts, v.Init)
				}
				t, f := pth.clone(), pth.clone()
				addCond(&t, v.Cond, true)
				addCond(&f, v.Cond, false)
				tr, err := enumFrom(v.Body.List, []sPath{t})
				if err != nil {
					return nil, err
				}
				var fr []sPath
				switch e := v.Else.(type) {
				case nil:
					fr = []sPath{f}
				case *ast.BlockStmt:
					if fr, err = enumFrom(e.List, []sPath{f}); err != nil {
						return nil, err
					}
				case *ast.IfStmt:
					if fr, err = enumFrom([]ast.Stmt{e}, []sPath{f}); err != nil {
						return nil, err
					}
				default:
					return nil, fmt.Errorf("unsupported else form")
				}
				for _, r := range append(tr, fr...) {
					if r.End != "" {
						done = append(done, r)
					} else {
						next = append(next, r)
					}
				}
			}
			open = next
		case *ast.BranchStmt:
			for _, pth := range open {
				switch v.Tok {
				case token.CONTINUE:
					pth.End = "next"
				case token.BREAK:
					pth.End = "break"
				default:
					return nil, fmt.Errorf("unsupported branch statement %s", v.Tok)
				}
				done = append(done, pth)
			}
			open = nil
		case *ast.ReturnStmt:
			for _, pth := range open {
				pth.End, pth.Ret = "return", v
				done = append(done, pth)
			}
			open = nil
		case *ast.BlockStmt:
			r, err := enumFrom(v.List, open)
			if err != nil {
				return nil, err
			}
			open = nil
			for _, x := range r {
				if x.End != "" {
					done = append(done, x)
				} else {
					open = append(open, x)
				}
			}
		case *ast.ForStmt, *ast.RangeStmt, *ast.SwitchStmt, *ast.TypeSwitchStmt, *ast.SelectStmt, *ast.LabeledStmt, *ast.GoStmt, *ast.DeferStmt:
			return nil, fmt.Errorf("unsupported statement %T in the loop body", st)
		default:
			for i := range open {
				open[i].Acts = append(open[i].Acts, st)
			}
		}
	}
	return append(done, open...), nil
}

func addCond(pth *sPath, cond ast.Expr, pol bool) {
	n := 0
	refine(cond, pol, func(atom ast.Expr, t bool) {
		pth.Conds = append(pth.Conds, spCond{atom, t})
		n++
	})
	if n > 0 {
		return
	}
	// `A && B` false (or `A || B` true) where the path already decides all operands but one
	if b, ok := unparen(cond).(*ast.BinaryExpr); ok && ((b.Op == token.LAND && !pol) || (b.Op == token.LOR && pol)) {
		var ops []ast.Expr
		var flat func(e ast.Expr)
		flat = func(e ast.Expr) {
			if x, ok := unparen(e).(*ast.BinaryExpr); ok && x.Op == b.Op {
				flat(x.X)
				flat(x.Y)
				return
			}
			ops = append(ops, e)
		}
		flat(b)
		var rest []ast.Expr
		for _, o := range ops {
			// for && taken false: operands known true are not the reason; for || taken true: operands known false
			if v, ok := pth.known(o); ok && v == (b.Op == token.LAND) {
				continue
			}
			rest = append(rest, o)
		}
		if len(rest) == 1 {
			addCond(pth, rest[0], pol)
			return
		}
	}
	pth.Opaque = append(pth.Opaque, cond)
}

// known: the truth value of e on this path, if the conditions taken so far decide it (same atom, or
// the complementary ==/!= comparison of the same operands).
func (p *sPath) known(e ast.Expr) (bool, bool) {
	e = unparen(e)
	neg := false
	for {
		u, ok := e.(*ast.UnaryExpr)
		if !ok || u.Op != token.NOT {
			break
		}
		neg = !neg
		e = unparen(u.X)
	}
	t := canon(e)
	for _, c := range p.Conds {
		if canon(c.Atom) == t {
			return c.Pol != neg, true
		}
	}
	if b, ok := e.(*ast.BinaryExpr); ok && (b.Op == token.EQL || b.Op == token.NEQ) {
		for _, c := range p.Conds {
			cb, ok := unparen(c.Atom).(*ast.BinaryExpr)
			if !ok || (cb.Op != token.EQL && cb.Op != token.NEQ) {
				continue
			}
			same := (canon(cb.X) == canon(b.X) && canon(cb.Y) == canon(b.Y)) || (canon(cb.X) == canon(b.Y) && canon(cb.Y) == canon(b.X))
			if same {
				v := c.Pol
				if cb.Op != b.Op {
					v = !v
				}
				return v != neg, true
			}
		}
	}
	return false, false
}

// checkMatchersAccounted: in a function that filters a list of label matchers against a label set
// (external labels), every matcher of the loop ends in exactly one of three ways on every path of the
// loop body: it is forwarded (appended to the output list), the whole request is rejected (return with
// false / an error), or it was tested against the label set's value and matched. A path that simply
// moves on to the next matcher drops a selector without anybody ever evaluating it.
func checkMatchersAccounted(p *Prog, fn *Fn) (problems []string, loops int) {
	info := fn.Info()
	inspectNoLit(fn.Body(), func(nd ast.Node) bool {
		rs, ok := nd.(*ast.RangeStmt)
		if !ok || rs.Value == nil {
			return true
		}
		m := objOf(info, rs.Value)
		if m == nil || !isNamedPtr(m.Type(), "labels", "Matcher") {
			return true
		}
		loops++
		paths, err := enumPaths(rs.Body.List)
		if err != nil {
			problems = append(problems, p.Pos(rs.Pos())+": "+err.Error())
			return false
		}
		for _, pth := range paths {
			forwarded, matched := false, false
			for _, a := range pth.Acts {
				as, ok := a.(*ast.AssignStmt)
				if !ok || len(as.Rhs) != 1 {
					continue
				}
				if call, ok := unparen(as.Rhs[0]).(*ast.CallExpr); ok && len(call.Args) >= 2 {
					if id, ok := call.Fun.(*ast.Ident); ok && id.Name == "append" && canon(call.Args[0]) == canon(as.Lhs[0]) {
						for _, arg := range call.Args[1:] {
							if objOf(info, arg) == m {
								forwarded = true
							}
						}
					}
				}
			}
			for _, cnd := range pth.Conds {
				if call, ok := unparen(cnd.Atom).(*ast.CallExpr); ok && cnd.Pol {
					if sel, ok := unparen(call.Fun).(*ast.SelectorExpr); ok && sel.Sel.Name == "Matches" && objOf(info, sel.X) == m {
						matched = true
					}
				}
			}
			rejected := false
			if pth.End == "return" && pth.Ret != nil {
				for _, r := range pth.Ret.Results {
					if tv, ok := info.Types[r]; ok && tv.Value != nil && tv.Value.String() == "false" {
						rejected = true
					}
				}
				if n := len(pth.Ret.Results); n > 0 && isErrorType(info.TypeOf(pth.Ret.Results[n-1])) && !isNil(info, pth.Ret.Results[n-1]) {
					rejected = true
				}
			}
			if forwarded || matched || rejected {
				continue
			}
			var took []string
			for _, cnd := range pth.Conds {
				s := exprString(cnd.Atom)
				if !cnd.Pol {
					s = "!(" + s + ")"
				}
				took = append(took, s)
			}
			for _, o := range pth.Opaque {
				took = append(took, "¬/∨ "+exprString(o))
			}
			problems = append(problems, fmt.Sprintf("%s: on the path [%s] the matcher %s is neither forwarded, nor a reason to reject, nor known to match the label set's value: the selector is dropped unevaluated",
				p.Pos(rs.Pos()), strings.Join(took, " ∧ "), m.Name()))
		}
		return false
	})
	return problems, loops
}

func isNamedPtr(t types.Type, pkg, name string) bool {
	pt, ok := t.(*types.Pointer)
	if !ok {
		return false
	}
	return isNamed(pt.Elem(), pkg, name)
}
