package main

// Shape matching with identifier placeholders.
//
// Several rules compare the printed form of a small statement with an expected form. Local variable,
// parameter and receiver names are not part of a statement's meaning, so the expected forms are
// written with placeholders — `§name` — that match any identifier; one binding table is shared by all
// matches of a rule instance, so a placeholder that occurs in two forms must denote the same
// identifier in both. Everything else (field names, function names, operators, literals) must match
// exactly. A pure rename of a local therefore does not change the verdict.

import "strings"

type shapeBind map[string]string

func shapeTokens(s string) []string {
	var out []string
	i := 0
	for i < len(s) {
		c := s[i]
		switch {
		case c == 0xC2 && i+1 < len(s) && s[i+1] == 0xA7: // '§' in UTF-8
			j := i + 2
			for j < len(s) && isIdentChar(s[j]) {
				j++
			}
			out = append(out, s[i:j])
			i = j
		case isIdentChar(c):
			j := i
			for j < len(s) && isIdentChar(s[j]) {
				j++
			}
			out = append(out, s[i:j])
			i = j
		default:
			out = append(out, s[i:i+1])
			i++
		}
	}
	return out
}

// matchShape reports whether text has the form of pattern, extending bind consistently.
func matchShape(pattern, text string, bind shapeBind) bool {
	pt, tt := shapeTokens(pattern), shapeTokens(text)
	if len(pt) != len(tt) {
		return false
	}
	trial := shapeBind{}
	for k, v := range bind {
		trial[k] = v
	}
	used := map[string]string{}
	for k, v := range trial {
		used[v] = k
	}
	for i := range pt {
		if strings.HasPrefix(pt[i], "§") {
			name := pt[i]
			if tt[i] == "" || !isIdentChar(tt[i][0]) || (tt[i][0] >= '0' && tt[i][0] <= '9') {
				return false
			}
			if prev, ok := trial[name]; ok {
				if prev != tt[i] {
					return false
				}
				continue
			}
			if other, taken := used[tt[i]]; taken && other != name {
				return false // two placeholders must not collapse onto one identifier
			}
			trial[name] = tt[i]
			used[tt[i]] = name
			continue
		}
		if pt[i] != tt[i] {
			return false
		}
	}
	for k, v := range trial {
		bind[k] = v
	}
	return true
}

// prefixShape: text starts with the form of pattern (token-wise).
func prefixShape(pattern, text string, bind shapeBind) bool {
	pt, tt := shapeTokens(pattern), shapeTokens(text)
	if len(tt) < len(pt) {
		return false
	}
	return matchShape(pattern, strings.Join(tt[:len(pt)], ""), bind)
}

// containsShape: some token-aligned substring of text has the form of pattern.
func containsShape(pattern, text string, bind shapeBind) bool {
	pt, tt := shapeTokens(pattern), shapeTokens(text)
	for i := 0; i+len(pt) <= len(tt); i++ {
		if matchShape(pattern, strings.Join(tt[i:i+len(pt)], ""), bind) {
			return true
		}
	}
	return false
}
