package main

import (
	"fmt"
	"go/ast"
	"go/constant"
	"go/token"
	"go/types"
	"sort"
	"strings"
)

// String classifier evaluation: a function whose decision depends on one string parameter only
// (isCounter, aggrsFromFunc) is evaluated for concrete strings. Supported: ==, != against
// constants, strings.HasPrefix/HasSuffix with a constant, && || !, if / else, switch on the
// parameter (with default), return. The result is the canonical text of the returned expression
// ("true"/"false" for booleans). Anything else is an error: the caller reports analysis-incomplete.

type strEval struct {
	p     *Prog
	fn    *Fn
	info  *types.Info
	param types.Object
	bools map[types.Object]bool // comma-ok results of set lookups, per evaluation
}

// setOf: the string keys of a package-level map variable initialised by a composite literal
// (`var counterFuncs = map[string]struct{}{"rate": {}, …}`), with the value of each key for map[string]bool.
func (x *strEval) setOf(e ast.Expr) (map[string]bool, bool) {
	id, ok := unparen(e).(*ast.Ident)
	if !ok {
		return nil, false
	}
	v, ok := x.info.Uses[id].(*types.Var)
	if !ok || v.Parent() == nil || v.Parent().Parent() != types.Universe {
		return nil, false
	}
	var lit *ast.CompositeLit
	for _, f := range x.fn.Pkg.Syntax {
		for _, d := range f.Decls {
			gd, ok := d.(*ast.GenDecl)
			if !ok {
				continue
			}
			for _, sp := range gd.Specs {
				vs, ok := sp.(*ast.ValueSpec)
				if !ok {
					continue
				}
				for i, nm := range vs.Names {
					if x.info.Defs[nm] == v && i < len(vs.Values) {
						lit, _ = unparen(vs.Values[i]).(*ast.CompositeLit)
					}
				}
			}
		}
	}
	if lit == nil {
		return nil, false
	}
	// the variable must not be written anywhere else in the package
	for _, f := range x.fn.Pkg.Syntax {
		written := false
		ast.Inspect(f, func(n ast.Node) bool {
			if as, ok := n.(*ast.AssignStmt); ok {
				for _, l := range as.Lhs {
					if ix, ok := unparen(l).(*ast.IndexExpr); ok && objOf(x.info, ix.X) == v {
						written = true
					}
					if objOf(x.info, l) == v {
						written = true
					}
				}
			}
			return true
		})
		if written {
			return nil, false
		}
	}
	out := map[string]bool{}
	for _, el := range lit.Elts {
		kv, ok := el.(*ast.KeyValueExpr)
		if !ok {
			return nil, false
		}
		tv, ok := x.info.Types[kv.Key]
		if !ok || tv.Value == nil || tv.Value.Kind() != constant.String {
			return nil, false
		}
		val := true
		if vt, ok := x.info.Types[kv.Value]; ok && vt.Value != nil && vt.Value.Kind() == constant.Bool {
			val = constant.BoolVal(vt.Value)
		}
		out[constant.StringVal(tv.Value)] = val
	}
	return out, true
}

func newStrEval(p *Prog, fn *Fn) (*strEval, error) {
	ft := fn.Type()
	if ft.Params == nil || len(ft.Params.List) != 1 || len(ft.Params.List[0].Names) != 1 {
		return nil, fmt.Errorf("%s: expected exactly one parameter", fn.Name)
	}
	info := fn.Info()
	o := info.Defs[ft.Params.List[0].Names[0]]
	if o == nil {
		return nil, fmt.Errorf("%s: parameter not resolved", fn.Name)
	}
	if b, ok := o.Type().Underlying().(*types.Basic); !ok || b.Kind() != types.String {
		return nil, fmt.Errorf("%s: parameter is not a string", fn.Name)
	}
	return &strEval{p: p, fn: fn, info: info, param: o}, nil
}

// literals returns every string constant of the function body, sorted.
func (x *strEval) literals() []string {
	set := map[string]bool{}
	ast.Inspect(x.fn.Body(), func(n ast.Node) bool {
		if e, ok := n.(ast.Expr); ok {
			if tv, ok := x.info.Types[e]; ok && tv.Value != nil && tv.Value.Kind() == constant.String {
				set[constant.StringVal(tv.Value)] = true
			}
		}
		return true
	})
	ast.Inspect(x.fn.Body(), func(n ast.Node) bool {
		if ix, ok := n.(*ast.IndexExpr); ok {
			if m, ok := x.setOf(ix.X); ok {
				for k := range m {
					set[k] = true
				}
			}
		}
		return true
	})
	var out []string
	for s := range set {
		out = append(out, s)
	}
	sort.Strings(out)
	return out
}

func (x *strEval) str(e ast.Expr, s string) (string, error) {
	e = unparen(e)
	if tv, ok := x.info.Types[e]; ok && tv.Value != nil && tv.Value.Kind() == constant.String {
		return constant.StringVal(tv.Value), nil
	}
	if id, ok := e.(*ast.Ident); ok && objOf(x.info, id) == x.param {
		return s, nil
	}
	return "", fmt.Errorf("%s: unsupported string expression %s", x.p.Pos(e.Pos()), exprString(e))
}

func (x *strEval) cond(e ast.Expr, s string) (bool, error) {
	e = unparen(e)
	if tv, ok := x.info.Types[e]; ok && tv.Value != nil && tv.Value.Kind() == constant.Bool {
		return constant.BoolVal(tv.Value), nil
	}
	switch v := e.(type) {
	case *ast.Ident:
		if b, ok := x.bools[objOf(x.info, v)]; ok {
			return b, nil
		}
	case *ast.IndexExpr:
		if m, ok := x.setOf(v.X); ok {
			k, err := x.str(v.Index, s)
			if err != nil {
				return false, err
			}
			return m[k], nil
		}
	case *ast.UnaryExpr:
		if v.Op == token.NOT {
			b, err := x.cond(v.X, s)
			return !b, err
		}
	case *ast.BinaryExpr:
		switch v.Op {
		case token.LAND, token.LOR:
			a, err := x.cond(v.X, s)
			if err != nil {
				return false, err
			}
			if (v.Op == token.LAND) != a {
				return a, nil
			}
			return x.cond(v.Y, s)
		case token.EQL, token.NEQ:
			a, err := x.str(v.X, s)
			if err != nil {
				return false, err
			}
			b, err := x.str(v.Y, s)
			if err != nil {
				return false, err
			}
			return (a == b) == (v.Op == token.EQL), nil
		}
	case *ast.CallExpr:
		if f := calleeOf(x.info, v); f != nil && f.Pkg() != nil && f.Pkg().Path() == "strings" && len(v.Args) == 2 {
			a, err := x.str(v.Args[0], s)
			if err != nil {
				return false, err
			}
			b, err := x.str(v.Args[1], s)
			if err != nil {
				return false, err
			}
			switch f.Name() {
			case "HasPrefix":
				return strings.HasPrefix(a, b), nil
			case "HasSuffix":
				return strings.HasSuffix(a, b), nil
			case "Contains":
				return strings.Contains(a, b), nil
			case "EqualFold":
				return strings.EqualFold(a, b), nil
			}
		}
	}
	return false, fmt.Errorf("%s: unsupported condition %s", x.p.Pos(e.Pos()), exprString(e))
}

// run evaluates the function for s; the second result is false when control falls off the list.
func (x *strEval) run(list []ast.Stmt, s string) (string, bool, error) {
	for _, st := range list {
		switch v := st.(type) {
		case *ast.ReturnStmt:
			if len(v.Results) != 1 {
				return "", false, fmt.Errorf("%s: unsupported return", x.p.Pos(v.Pos()))
			}
			if tv, ok := x.info.Types[v.Results[0]]; ok && isBoolType(tv.Type) {
				b, err := x.cond(v.Results[0], s)
				return fmt.Sprint(b), true, err
			}
			return stmtText(x.p, v.Results[0]), true, nil
		case *ast.AssignStmt:
			if err := x.bindLookup(v, s); err != nil {
				return "", false, err
			}
		case *ast.IfStmt:
			if v.Init != nil {
				as, ok := v.Init.(*ast.AssignStmt)
				if !ok {
					return "", false, fmt.Errorf("%s: unsupported if-init", x.p.Pos(v.Pos()))
				}
				if err := x.bindLookup(as, s); err != nil {
					return "", false, err
				}
			}
			c, err := x.cond(v.Cond, s)
			if err != nil {
				return "", false, err
			}
			var body []ast.Stmt
			if c {
				body = v.Body.List
			} else if v.Else != nil {
				if b, ok := v.Else.(*ast.BlockStmt); ok {
					body = b.List
				} else {
					body = []ast.Stmt{v.Else}
				}
			}
			r, done, err := x.run(body, s)
			if err != nil || done {
				return r, done, err
			}
		case *ast.SwitchStmt:
			if v.Init != nil {
				return "", false, fmt.Errorf("%s: unsupported switch-init", x.p.Pos(v.Pos()))
			}
			var chosen, deflt *ast.CaseClause
			for _, cs := range v.Body.List {
				cc := cs.(*ast.CaseClause)
				if cc.List == nil {
					deflt = cc
					continue
				}
				for _, ce := range cc.List {
					hit := false
					var err error
					if v.Tag == nil {
						hit, err = x.cond(ce, s)
					} else {
						var a, b string
						if a, err = x.str(v.Tag, s); err == nil {
							if b, err = x.str(ce, s); err == nil {
								hit = a == b
							}
						}
					}
					if err != nil {
						return "", false, err
					}
					if hit && chosen == nil {
						chosen = cc
					}
				}
				if chosen != nil {
					break
				}
			}
			if chosen == nil {
				chosen = deflt
			}
			if chosen != nil {
				for _, b := range chosen.Body {
					if br, ok := b.(*ast.BranchStmt); ok && br.Tok == token.FALLTHROUGH {
						return "", false, fmt.Errorf("%s: fallthrough not supported", x.p.Pos(b.Pos()))
					}
				}
				r, done, err := x.run(chosen.Body, s)
				if err != nil || done {
					return r, done, err
				}
			}
		case *ast.BlockStmt:
			r, done, err := x.run(v.List, s)
			if err != nil || done {
				return r, done, err
			}
		case *ast.EmptyStmt:
		default:
			return "", false, fmt.Errorf("%s: unsupported statement %T in a string classifier", x.p.Pos(st.Pos()), st)
		}
	}
	return "", false, nil
}

// bindLookup handles `_, ok := set[f]` / `v, ok := set[f]`.
func (x *strEval) bindLookup(as *ast.AssignStmt, s string) error {
	if len(as.Lhs) == 2 && len(as.Rhs) == 1 {
		if ix, ok := unparen(as.Rhs[0]).(*ast.IndexExpr); ok {
			if m, ok := x.setOf(ix.X); ok {
				k, err := x.str(ix.Index, s)
				if err != nil {
					return err
				}
				_, present := m[k]
				if o := objOf(x.info, as.Lhs[1]); o != nil {
					x.bools[o] = present
				}
				if o := objOf(x.info, as.Lhs[0]); o != nil {
					x.bools[o] = m[k]
				}
				return nil
			}
		}
	}
	return fmt.Errorf("%s: unsupported statement `%s` in a string classifier", x.p.Pos(as.Pos()), stmtText(x.p, as))
}

func (x *strEval) Eval(s string) (string, error) {
	x.bools = map[types.Object]bool{}
	r, done, err := x.run(x.fn.Body().List, s)
	if err != nil {
		return "", err
	}
	if !done {
		return "", fmt.Errorf("%s: control reaches the end of %s without a return", x.p.Pos(x.fn.Node().Pos()), x.fn.Name)
	}
	return r, nil
}

// strCandidates: the literals of all given evaluators, each literal extended by one character on
// either side (the other side of a prefix/suffix/equality test), and two strings no test mentions.
func strCandidates(xs ...*strEval) []string {
	set := map[string]bool{"": true, "\x00none": true}
	for _, x := range xs {
		for _, l := range x.literals() {
			set[l] = true
			set[l+"z"] = true
			set["z"+l] = true
		}
	}
	var out []string
	for s := range set {
		out = append(out, s)
	}
	sort.Strings(out)
	return out
}
