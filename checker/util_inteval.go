package main

// A tiny evaluator for integer comparisons over opaque atoms (identifiers, selectors, len(x)): used to decide
// implications between small guards by enumerating the atoms over a small domain. Only +, - and constants are
// interpreted, so an implication that holds on {lo..hi}^k for linear expressions with unit coefficients holds
// in general when the domain has more points than atoms plus constants involved (callers use 0..5).

import (
	"go/ast"
	"go/token"
	"go/types"
	"sort"
	"strconv"
	"strings"
)

type atomEnv map[string]int64

func atomsOfInt(info *types.Info, e ast.Expr, out map[string]bool) bool {
	e = unparen(e)
	if _, ok := constInt(info, e); ok {
		return true
	}
	switch v := e.(type) {
	case *ast.BinaryExpr:
		switch v.Op {
		case token.ADD, token.SUB, token.LSS, token.LEQ, token.GTR, token.GEQ, token.EQL, token.NEQ, token.LAND, token.LOR:
			return atomsOfInt(info, v.X, out) && atomsOfInt(info, v.Y, out)
		}
		return false
	case *ast.UnaryExpr:
		if v.Op == token.NOT || v.Op == token.SUB {
			return atomsOfInt(info, v.X, out)
		}
		return false
	case *ast.BasicLit:
		return v.Kind == token.INT // a literal of a synthesised expression
	case *ast.Ident, *ast.SelectorExpr:
		out[canon(e)] = true
		return true
	case *ast.CallExpr:
		if id, ok := v.Fun.(*ast.Ident); ok && id.Name == "len" && len(v.Args) == 1 {
			out[canon(e)] = true
			return true
		}
		// a conversion between integer types is transparent
		if tv, ok := info.Types[v.Fun]; ok && tv.IsType() && len(v.Args) == 1 {
			return atomsOfInt(info, v.Args[0], out)
		}
		// a getter without arguments (r.GetEnd()) is an opaque quantity
		if _, isSel := unparen(v.Fun).(*ast.SelectorExpr); isSel && len(v.Args) == 0 {
			out[canon(e)] = true
			return true
		}
	}
	return false
}

func evalIntAtoms(info *types.Info, e ast.Expr, env atomEnv) int64 {
	e = unparen(e)
	if k, ok := constInt(info, e); ok {
		return k
	}
	switch v := e.(type) {
	case *ast.BasicLit:
		k, _ := strconv.ParseInt(v.Value, 0, 64)
		return k
	case *ast.BinaryExpr:
		x, y := evalIntAtoms(info, v.X, env), evalIntAtoms(info, v.Y, env)
		switch v.Op {
		case token.ADD:
			return x + y
		case token.SUB:
			return x - y
		case token.LSS:
			return b2i(x < y)
		case token.LEQ:
			return b2i(x <= y)
		case token.GTR:
			return b2i(x > y)
		case token.GEQ:
			return b2i(x >= y)
		case token.EQL:
			return b2i(x == y)
		case token.NEQ:
			return b2i(x != y)
		case token.LAND:
			return b2i(x != 0 && y != 0)
		case token.LOR:
			return b2i(x != 0 || y != 0)
		}
	case *ast.UnaryExpr:
		x := evalIntAtoms(info, v.X, env)
		if v.Op == token.NOT {
			return b2i(x == 0)
		}
		return -x
	case *ast.CallExpr:
		if tv, ok := info.Types[v.Fun]; ok && tv.IsType() && len(v.Args) == 1 {
			return evalIntAtoms(info, v.Args[0], env)
		}
	}
	return env[canon(e)]
}

// impliedOnSmallDomain reports whether concl holds in every assignment of the atoms over lo..hi in which all
// premises hold. ok=false when an expression is outside the fragment. cex is a falsifying assignment.
func impliedOnSmallDomain(info *types.Info, premises []ast.Expr, concl ast.Expr, lo, hi int64) (holds, ok bool, cex atomEnv) {
	set := map[string]bool{}
	for _, e := range append(append([]ast.Expr{}, premises...), concl) {
		if !atomsOfInt(info, e, set) {
			return false, false, nil
		}
	}
	var atoms []string
	for a := range set {
		atoms = append(atoms, a)
	}
	sort.Strings(atoms)
	if len(atoms) > 6 {
		return false, false, nil
	}
	env := atomEnv{}
	var rec func(i int) atomEnv
	rec = func(i int) atomEnv {
		if i == len(atoms) {
			for _, pr := range premises {
				if evalIntAtoms(info, pr, env) == 0 {
					return nil
				}
			}
			if evalIntAtoms(info, concl, env) == 0 {
				out := atomEnv{}
				for k, v := range env {
					out[k] = v
				}
				return out
			}
			return nil
		}
		for v := lo; v <= hi; v++ {
			env[atoms[i]] = v
			if c := rec(i + 1); c != nil {
				return c
			}
		}
		return nil
	}
	if c := rec(0); c != nil {
		return false, true, c
	}
	return true, true, nil
}

// splitAnd returns the conjuncts of a && b && …
func splitAnd(e ast.Expr) []ast.Expr {
	e = unparen(e)
	if be, ok := e.(*ast.BinaryExpr); ok && be.Op == token.LAND {
		return append(splitAnd(be.X), splitAnd(be.Y)...)
	}
	return []ast.Expr{e}
}

func fmtAtomEnv(env atomEnv) string {
	var ks []string
	for k := range env {
		ks = append(ks, k)
	}
	sort.Strings(ks)
	s := ""
	for i, k := range ks {
		if i > 0 {
			s += ", "
		}
		s += k + "=" + itoa64(env[k])
	}
	return s
}

func itoa64(v int64) string { return strconv.FormatInt(v, 10) }

// isContextErr: X.Err() / context.Cause(X) of a context.Context, possibly wrapped by errors.Wrap/Wrapf/WithMessage
// or fmt.Errorf (non-nil whenever the context is done).
func isContextErr(info *types.Info, e ast.Expr) bool {
	call, ok := unparen(e).(*ast.CallExpr)
	if !ok {
		return false
	}
	if se, ok := unparen(call.Fun).(*ast.SelectorExpr); ok {
		if se.Sel.Name == "Err" && len(call.Args) == 0 && isNamed(info.TypeOf(se.X), "context", "Context") {
			return true
		}
	}
	f := calleeOf(info, call)
	if f == nil || f.Pkg() == nil {
		return false
	}
	switch {
	case f.Pkg().Path() == "context" && f.Name() == "Cause" && len(call.Args) == 1:
		return isNamed(info.TypeOf(call.Args[0]), "context", "Context")
	case strings.HasSuffix(f.Pkg().Path(), "pkg/errors") && (f.Name() == "Wrap" || f.Name() == "Wrapf" || f.Name() == "WithMessage" || f.Name() == "WithMessagef" || f.Name() == "WithStack") && len(call.Args) >= 1:
		return isContextErr(info, call.Args[0])
	case f.Pkg().Path() == "fmt" && f.Name() == "Errorf":
		for _, a := range call.Args[1:] {
			if isContextErr(info, a) {
				return true
			}
		}
	}
	return false
}
