package main

import (
	"bytes"
	"go/ast"
	"go/printer"
	"strings"
)

// stmtText prints any node compactly (all whitespace removed) — for structural comparisons of
// small statements, not for positions.
func stmtText(p *Prog, n ast.Node) string {
	var b bytes.Buffer
	if err := printer.Fprint(&b, p.Fset, n); err != nil {
		return ""
	}
	return strings.Join(strings.Fields(b.String()), "")
}
