//go:build slicelabels

// Demonstration for the C03 finding (copy into pkg/store/ to run): identical aggregated (downsampled)
// chunks returned by two stores for the same series are not removed by the response deduplicator.
package store

import (
	"sync"
	"testing"

	"github.com/prometheus/prometheus/model/labels"

	"github.com/thanos-io/thanos/pkg/store/labelpb"
	"github.com/thanos-io/thanos/pkg/store/storepb"
)

func TestC03FindingIdenticalAggrChunksAreDeduplicated(t *testing.T) {
	mk := func() *storepb.SeriesResponse {
		return storepb.NewSeriesResponse(&storepb.Series{
			Labels: labelpb.ZLabelsFromPromLabels(labels.FromStrings("foo", "bar")),
			Chunks: []storepb.AggrChunk{{
				MinTime: 0, MaxTime: 100,
				Count:   &storepb.Chunk{Type: storepb.Chunk_XOR, Data: []byte("count")},
				Sum:     &storepb.Chunk{Type: storepb.Chunk_XOR, Data: []byte("sum")},
				Min:     &storepb.Chunk{Type: storepb.Chunk_XOR, Data: []byte("min")},
				Max:     &storepb.Chunk{Type: storepb.Chunk_XOR, Data: []byte("max")},
				Counter: &storepb.Chunk{Type: storepb.Chunk_XOR, Data: []byte("counter")},
			}},
		})
	}
	set := func(r *storepb.SeriesResponse) respSet {
		return &eagerRespSet{closeSeries: func() {}, cl: nopClientSendCloser{}, wg: &sync.WaitGroup{}, bufferedResponses: []*storepb.SeriesResponse{r}}
	}
	h := NewResponseDeduplicator(NewProxyResponseLoserTree(set(mk()), set(mk()), set(mk())))
	if !h.Next() {
		t.Fatal("no response")
	}
	if got := len(h.At().GetSeries().Chunks); got != 1 {
		t.Fatalf("three stores returned the same aggregated chunk; the merged series carries %d chunks, want 1", got)
	}
}
