//go:build slicelabels

// Demonstration for the C08 finding (kept under /verif/findings; copy into pkg/store/ to run):
// PrometheusStore.Series with SkipChunks=true returned a stored label that the request asked to drop
// as a replica label, whereas the chunk paths of the same store remove it.
package store

import (
	"context"
	"net/http"
	"net/http/httptest"
	"net/url"
	"testing"

	"github.com/prometheus/prometheus/model/labels"

	"github.com/thanos-io/thanos/pkg/component"
	"github.com/thanos-io/thanos/pkg/promclient"
	"github.com/thanos-io/thanos/pkg/store/labelpb"
	"github.com/thanos-io/thanos/pkg/store/storepb"
)

func TestC08FindingPrometheusSkipChunksDropsReplicaLabel(t *testing.T) {
	srv := httptest.NewServer(http.HandlerFunc(func(w http.ResponseWriter, r *http.Request) {
		w.Header().Set("Content-Type", "application/json")
		_, _ = w.Write([]byte(`{"status":"success","data":[{"__name__":"up","job":"a","replica":"stored"}]}`))
	}))
	defer srv.Close()
	u, _ := url.Parse(srv.URL)
	ext := labels.FromStrings("region", "eu", "replica", "r1")
	p, err := NewPrometheusStore(nil, nil, promclient.NewDefaultClient(), u, component.Sidecar,
		func() labels.Labels { return ext }, func() (int64, int64) { return 0, 1000 }, func() string { return "2.40.0" })
	if err != nil {
		t.Fatal(err)
	}
	s := newStoreSeriesServer(context.Background())
	if err := p.Series(&storepb.SeriesRequest{
		MinTime: 0, MaxTime: 1000, SkipChunks: true,
		Matchers:             []storepb.LabelMatcher{{Type: storepb.LabelMatcher_EQ, Name: "__name__", Value: "up"}},
		WithoutReplicaLabels: []string{"replica"},
	}, s); err != nil {
		t.Fatal(err)
	}
	if len(s.SeriesSet) != 1 {
		t.Fatalf("want one series, got %d", len(s.SeriesSet))
	}
	got := labelpb.ZLabelsToPromLabels(s.SeriesSet[0].Labels)
	if got.Has("replica") {
		t.Fatalf("dropped replica label is still present: %s", got)
	}
}
