// Demonstration for the C11 finding (copy into pkg/block/indexheader/ to run): for a format-V1 index the
// binary header omits missing values instead of reporting them as not found, so the answer is no longer
// aligned with the requested values (the Reader interface promises one range per value).
package indexheader

import (
	"testing"

	"github.com/prometheus/prometheus/tsdb/index"
)

func TestC11FindingV1MissingValuesAreReportedAsNotFound(t *testing.T) {
	r := &BinaryReader{
		indexVersion: index.FormatV1,
		postingsV1:   map[string]map[string]index.Range{"a": {"1": {Start: 10, End: 20}}},
	}
	rngs, err := r.PostingsOffsets("a", "0", "1", "2")
	if err != nil {
		t.Fatal(err)
	}
	want := []index.Range{NotFoundRange, {Start: 10, End: 20}, NotFoundRange}
	if len(rngs) != len(want) {
		t.Fatalf("got %d ranges for 3 requested values: %v", len(rngs), rngs)
	}
	for i := range want {
		if rngs[i] != want[i] {
			t.Fatalf("range %d: got %v want %v", i, rngs[i], want[i])
		}
	}
}
