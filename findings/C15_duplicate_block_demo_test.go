// Demonstration for the C15 finding (copy into pkg/store/ to run): with overlapping (nested) blocks at a
// downsampled resolution, bucketBlockSet.getFor moves its gap cursor backwards and selects the same
// lower-resolution block twice.
package store

import (
	"testing"

	"github.com/prometheus/prometheus/model/labels"

	"github.com/thanos-io/thanos/pkg/block/metadata"
	"github.com/thanos-io/thanos/pkg/compact/downsample"
)

func TestC15FindingNoBlockSelectedTwice(t *testing.T) {
	set := newBucketBlockSet(labels.EmptyLabels())
	add := func(res, mint, maxt int64) *bucketBlock {
		var m metadata.Meta
		m.Thanos.Downsample.Resolution = res
		m.MinTime, m.MaxTime = mint, maxt
		b := &bucketBlock{meta: &m}
		if err := set.add(b); err != nil {
			t.Fatal(err)
		}
		return b
	}
	add(downsample.ResLevel1, 0, 1000)
	add(downsample.ResLevel1, 100, 200)
	add(downsample.ResLevel1, 300, 400)
	raw := add(downsample.ResLevel0, 0, 1000)

	n := 0
	for _, b := range set.getFor(0, 999, downsample.ResLevel1, nil) {
		if b == raw {
			n++
		}
	}
	if n > 1 {
		t.Fatalf("the raw block [0,1000) was selected %d times for one query", n)
	}
}
