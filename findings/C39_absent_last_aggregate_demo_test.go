// Demonstration for the C39 finding (copy into pkg/compact/downsample/ to run): an aggregate chunk whose
// last aggregate (counter) is absent reports "invalid size" instead of ErrAggrNotExist.
package downsample

import (
	"testing"

	"github.com/prometheus/prometheus/tsdb/chunkenc"
)

func TestC39FindingAbsentLastAggregateIsReportedAsNotExisting(t *testing.T) {
	c := chunkenc.NewXORChunk()
	app, _ := c.Appender()
	app.Append(1, 1)
	var in [5]chunkenc.Chunk
	in[AggrCount] = c // everything else, including the trailing counter, is absent
	ac := EncodeAggrChunk(in)
	if _, err := ac.Get(AggrCount); err != nil {
		t.Fatalf("present aggregate: %v", err)
	}
	for _, at := range []AggrType{AggrSum, AggrMin, AggrMax, AggrCounter} {
		if _, err := ac.Get(at); err != ErrAggrNotExist {
			t.Errorf("%s is absent; Get returned %v, want ErrAggrNotExist", at, err)
		}
	}
}
