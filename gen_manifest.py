#!/usr/bin/env python3
"""Regenerates MANIFEST.json from manifest_src.json (claimed checks + not-applicable reasons)."""
import json, sys
src = json.load(open('/verif/manifest_src.json'))
props = [json.loads(l) for l in open('/verif/properties.jsonl')]
ids = [p['id'] for p in props]
checks = []
na = []
for pid in ids:
    if pid in src['claimed']:
        c = src['claimed'][pid]
        checks.append({
            "property_id": pid,
            "quick_cmd": f"bin/tvc check {pid} --tier quick",
            "thorough_cmd": f"bin/tvc check {pid} --tier thorough",
            "evidence_file": f"evidence/{pid}.json",
            "replay_cmd_template": "bin/tvc explain {path}",
            "engine": "tvc",
            "level_claimed": {"category": "other", "text": c["text"], "design_ref": f"DESIGN.md §3 {pid}"},
            "level_note": c.get("note", "Trusted base: go/types, go/cfg, go/ssa (x/tools v0.50.0), the frozen rule tables in /verif/checker, and the specification formulas written from the property text. The check decides the named structural clauses on all paths/call sites, not the runtime behaviour."),
            "technique": c["technique"],
        })
    else:
        na.append({"property_id": pid, "reason": src['not_applicable'].get(pid, "rules for this property are not built yet; not claimed rather than claimed with a weaker check (DESIGN.md §9)")})
m = {
    "version": 1,
    "setup_cmd": "./setup.sh",
    "hooks": {"guard": "verif", "enable": "none needed: static analysis reads /repo's working tree; no instrumentation is compiled in", 
              "baseline_off_cmd": src["baseline_off_cmd"], "source_commits": [], "add_only": True},
    "engines": [{"name": "tvc", "path": "checker/", "serves_properties": sorted(src['claimed'].keys()),
                 "kind_free_text": "repository-specific static analyser (go/packages + go/types + go/cfg dataflow + go/ssa), rules per property, in-memory overlay mutants as self-test"}],
    "checks": checks,
    "not_applicable": na,
    "notes": "All checks are static analyses of /repo's current working tree (both build configurations in the thorough tier). Known genuine defects that are recorded rather than repaired are in known-findings.jsonl.",
}
json.dump(m, open('/verif/MANIFEST.json', 'w'), indent=1)
print(f"{len(checks)} checks, {len(na)} not applicable")
