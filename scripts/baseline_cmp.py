#!/usr/bin/env python3
"""Compare a `go test -json` log with the stable_pass list of /root/.vp/BASELINE.json."""
import json, sys
base = json.load(open('/root/.vp/BASELINE.json'))
stable = set(base['stable_pass'])
res = {}
for line in open(sys.argv[1], errors='replace'):
    line = line.strip()
    if not line.startswith('{'):
        continue
    try:
        e = json.loads(line)
    except Exception:
        continue
    if e.get('Action') in ('pass', 'fail', 'skip') and e.get('Test'):
        res[f"{e['Package']}::{e['Test']}"] = e['Action']
missing = sorted(t for t in stable if res.get(t) != 'pass')
print(f"stable={len(stable)} passed_of_stable={len(stable)-len(missing)} not_passing={len(missing)}")
for t in missing[:40]:
    print("  ", t, res.get(t))
sys.exit(1 if missing else 0)
