#!/usr/bin/env python3
import json, sys, subprocess
pid, tech, text = sys.argv[1], sys.argv[2], sys.argv[3]
src = json.load(open('/verif/manifest_src.json'))
src['claimed'][pid] = {"technique": tech, "text": text}
json.dump(src, open('/verif/manifest_src.json', 'w'), indent=1)
subprocess.check_call(['python3', '/verif/gen_manifest.py'])
