#!/bin/sh
# usage: run_all.sh <quick|thorough> [parallel jobs]  — runs every claimed check, prints one summary line each
tier=${1:-quick}; jobs=${2:-3}
cd /verif
ids=$(jq -r '.checks[].property_id' MANIFEST.json)
echo "$ids" | xargs -P "$jobs" -I{} sh -c 'out=$(bin/tvc check {} --tier '"$tier"' 2>&1); rc=$?; echo "$out" | grep -E "^C[0-9]+ (quick|thorough):" | sed "s/$/ rc=$rc/"; echo "$out" | grep -E "^VIOLATION" | head -3'
