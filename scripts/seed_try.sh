#!/bin/sh
# usage: seed_try.sh <seeded-dir-name> [property ...]
# Applies /verif/seeded/<dir>/patch.diff to /repo, runs the quick checks, records what reported, restores /repo.
d=/verif/seeded/$1; shift
props="$@"
[ -z "$props" ] && props=$(jq -r .property $d/meta.json)
git -C /repo diff --quiet || { echo "/repo not clean"; exit 2; }
git -C /repo apply $d/patch.diff || exit 2
: > $d/verdict.txt
for p in $props; do
  out=$(cd /verif && bin/tvc check $p --tier quick 2>&1)
  rc=$?
  echo "== $p exit=$rc" >> $d/verdict.txt
  echo "$out" | grep -E "VIOLATION|behavioural|analysis-incomplete|checker-regression" | cut -c1-400 >> $d/verdict.txt
done
git -C /repo checkout -- .
cat $d/verdict.txt
