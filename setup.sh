#!/bin/sh
# Builds the checker offline from files on disk only.
set -e
cd "$(dirname "$0")/checker"
export PATH=/opt/veriftools/go1.26.8/bin:$PATH
export GOFLAGS=-mod=mod GOPROXY=off GOSUMDB=off GOTOOLCHAIN=local GOWORK=off
mkdir -p ../bin ../evidence
go build -o ../bin/tvc .
echo "built $(cd .. && pwd)/bin/tvc"
