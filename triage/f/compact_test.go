package compact

import (
	"context"
	"fmt"
	"testing"
	"time"

	"github.com/go-kit/log"
	"github.com/oklog/ulid/v2"
	"github.com/prometheus/client_golang/prometheus"
	"github.com/prometheus/prometheus/tsdb"
	"github.com/thanos-io/objstore"

	"github.com/thanos-io/thanos/pkg/block/metadata"
)

// C32: block whose MaxTime is still (a few hundred ms) younger than the retention.
func TestTriageC32(t *testing.T) {
	ret := time.Hour
	var maxT int64
	var now time.Time
	for {
		now = time.Now()
		cut := now.Add(-ret).UnixMilli() // samples at or before cut are older than retention
		base := (cut / 1000) * 1000
		maxT = base + 999
		if maxT > cut+200 && base < cut-5 { // leave slack for the call below
			break
		}
		time.Sleep(5 * time.Millisecond)
	}
	id := ulid.MustNew(1, nil)
	m := &metadata.Meta{BlockMeta: tsdb.BlockMeta{ULID: id, MinTime: maxT - 1000, MaxTime: maxT}}
	bkt := objstore.NewInMemBucket()
	err := ApplyRetentionPolicyByResolution(context.Background(), log.NewNopLogger(), bkt, map[ulid.ULID]*metadata.Meta{id: m},
		map[ResolutionLevel]time.Duration{ResolutionLevelRaw: ret}, prometheus.NewCounter(prometheus.CounterOpts{}))
	marked, _ := bkt.Exists(context.Background(), id.String()+"/"+metadata.DeletionMarkFilename)
	age := time.Since(time.UnixMilli(maxT))
	fmt.Printf("TRIAGE C32 err=%v block MaxTime age=%v retention=%v (age<retention: %v) marked-for-deletion=%v\n", err, age, ret, age < ret, marked)
}
