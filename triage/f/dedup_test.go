package dedup

import (
	"fmt"
	"testing"

	"github.com/prometheus/prometheus/model/labels"
	"github.com/prometheus/prometheus/storage"
	"github.com/prometheus/prometheus/tsdb/chunkenc"
	"github.com/prometheus/prometheus/tsdb/chunks"

	"github.com/thanos-io/thanos/pkg/compact/downsample"
)

type smp struct {
	t int64
	v float64
}

func xorIter(ss []smp) chunkenc.Iterator {
	c := chunkenc.NewXORChunk()
	app, _ := c.Appender()
	for _, s := range ss {
		app.Append(s.t, s.v)
	}
	return c.Iterator(nil)
}

func drain(it chunkenc.Iterator) (out []smp) {
	for it.Next() != chunkenc.ValNone {
		t, v := it.At()
		out = append(out, smp{t, v})
	}
	return
}

// C01: reader that seeks first vs reader that iterates from the start.
func TestTriageC01(t *testing.T) {
	a := []smp{{10000, 1}, {20000, 1}, {30000, 1}}
	b := []smp{{5000, 2}, {15000, 2}, {25000, 2}}
	full := drain(newDedupSeriesIterator(noopAdjustableSeriesIterator{xorIter(a)}, noopAdjustableSeriesIterator{xorIter(b)}))
	fmt.Printf("TRIAGE C01 from-start: %v\n", full)
	for _, seekT := range []int64{0, 5000, 7000, 10000} {
		it := newDedupSeriesIterator(noopAdjustableSeriesIterator{xorIter(a)}, noopAdjustableSeriesIterator{xorIter(b)})
		var got []smp
		if it.Seek(seekT) != chunkenc.ValNone {
			tt, v := it.At()
			got = append(got, smp{tt, v})
			got = append(got, drain(it)...)
		}
		var want []smp
		for _, s := range full {
			if s.t >= seekT {
				want = append(want, s)
			}
		}
		fmt.Printf("TRIAGE C01 seek(%d) first: got=%v want-suffix=%v equal=%v\n", seekT, got, want, fmt.Sprint(got) == fmt.Sprint(want))
	}
}

func aggrSeries(start, n int, step int64) storage.ChunkSeries {
	// Build AggrChunks of <=120 samples each, like downsampled data, all five aggregates.
	var metas []chunks.Meta
	for off := 0; off < n; off += 120 {
		var chks [5]chunkenc.Chunk
		var apps [5]chunkenc.Appender
		for i := range chks {
			chks[i] = chunkenc.NewXORChunk()
			apps[i], _ = chks[i].Appender()
		}
		end := off + 120
		if end > n {
			end = n
		}
		var mint, maxt int64
		for k := off; k < end; k++ {
			ts := int64(start+k) * step
			if k == off {
				mint = ts
			}
			maxt = ts
			for i := range apps {
				apps[i].Append(ts, float64(k+1))
			}
		}
		apps[downsample.AggrCounter].Append(maxt, float64(end))
		metas = append(metas, chunks.Meta{MinTime: mint, MaxTime: maxt, Chunk: downsample.EncodeAggrChunk(chks)})
	}
	return &storage.ChunkSeriesEntry{Lset: labels.FromStrings("a", "b"), ChunkIteratorFn: func(chunks.Iterator) chunks.Iterator {
		return storage.NewListChunkSeriesIterator(metas...)
	}}
}

// C40: two overlapping downsampled series long enough to need >1 output chunk.
func TestTriageC40(t *testing.T) {
	s1 := aggrSeries(0, 300, 300000)
	s2 := aggrSeries(0, 300, 300000)
	// shift s2 by making its chunks differ: different start so chunks are not byte-identical.
	s2 = aggrSeries(1, 300, 300000)
	merged := NewChunkSeriesMerger()(s1, s2)
	it := merged.Iterator(nil)
	ci := 0
	for it.Next() {
		m := it.At()
		ac, ok := m.Chunk.(*downsample.AggrChunk)
		if !ok {
			fmt.Printf("TRIAGE C40 chunk %d not aggr: %T\n", ci, m.Chunk)
			ci++
			continue
		}
		var counts [5]int
		var firstT [5]int64
		for i := downsample.AggrCount; i <= downsample.AggrCounter; i++ {
			c, err := ac.Get(i)
			if err != nil {
				counts[i] = -1
				continue
			}
			ss := drain(c.Iterator(nil))
			counts[i] = len(ss)
			if len(ss) > 0 {
				firstT[i] = ss[0].t
			}
		}
		fmt.Printf("TRIAGE C40 out-chunk %d [%d,%d] samples count/sum/min/max/counter=%v firstT=%v\n", ci, m.MinTime, m.MaxTime, counts, firstT)
		ci++
	}
	fmt.Printf("TRIAGE C40 err=%v\n", it.Err())
}
