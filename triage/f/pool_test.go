package pool

import (
	"fmt"
	"testing"
)

// C17b: budget 100 bytes, buckets 64..1024.
func TestTriageC17b(t *testing.T) {
	p, _ := NewBucketedPool[byte](64, 1024, 2, 100)
	b1, err1 := p.Get(60)
	b2, err2 := p.Get(30)
	fmt.Printf("TRIAGE C17b maxTotal=100 after Get(60),Get(30): errs=%v,%v used=%d (exceeds budget: %v)\n", err1, err2, p.UsedBytes(), p.UsedBytes() > 100)
	p.Put(b1)
	p.Put(b2)
	fmt.Printf("TRIAGE C17b after puts used=%d\n", p.UsedBytes())
}
