package queryfrontend

import (
	"fmt"
	"testing"
	"time"

	"github.com/prometheus/prometheus/model/labels"
)

// C43: distinct cacheable requests, same key.
func TestTriageC43(t *testing.T) {
	g := newThanosCacheKeyGenerator()
	r1 := &ThanosQueryRangeRequest{Query: "c", Start: 0, Step: 1000, SplitInterval: time.Hour}
	r2 := &ThanosQueryRangeRequest{Query: "b:c", Start: 0, Step: 1000, SplitInterval: time.Hour}
	k1 := g.GenerateCacheKey("a:b", r1)
	k2 := g.GenerateCacheKey("a", r2)
	fmt.Printf("TRIAGE C43 range key tenant a:b/query c == tenant a/query b:c : %v (%q)\n", k1 == k2, k1)
	m := [][]*labels.Matcher{{labels.MustNewMatcher(labels.MatchEqual, "x", "y")}}
	s1 := &ThanosSeriesRequest{Matchers: m, SplitInterval: time.Hour, Dedup: true, ReplicaLabels: []string{"replica"}}
	s2 := &ThanosSeriesRequest{Matchers: m, SplitInterval: time.Hour, Dedup: false}
	fmt.Printf("TRIAGE C43 series key dedup/replica-labels differ, same key: %v\n", g.GenerateCacheKey("t", s1) == g.GenerateCacheKey("t", s2))
	l1 := &ThanosLabelsRequest{Label: "", Matchers: m, SplitInterval: time.Hour, PartialResponse: true}
	l2 := &ThanosLabelsRequest{Label: "", Matchers: m, SplitInterval: time.Hour, PartialResponse: false}
	fmt.Printf("TRIAGE C43 labels key partial-response differ, same key: %v (%q)\n", g.GenerateCacheKey("t", l1) == g.GenerateCacheKey("t", l2), g.GenerateCacheKey("t", l1))
}
