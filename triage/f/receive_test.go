package receive

import (
	"context"
	"fmt"
	"net/http"
	"net/http/httptest"
	"testing"
	"time"

	"github.com/go-kit/log"
	"github.com/gogo/protobuf/proto"
	"github.com/klauspost/compress/s2"
	"github.com/prometheus/client_golang/prometheus"
	"github.com/prometheus/prometheus/prompb/io/prometheus/write/v2"
	"github.com/prometheus/prometheus/storage"

	"github.com/thanos-io/thanos/pkg/gate"
	"github.com/thanos-io/thanos/pkg/store/storepb/prompb"
	"github.com/thanos-io/thanos/pkg/tenancy"
)

// C23: RF=4, two replicas conflict, two succeed -> quorum (3) impossible because of conflicts alone.
func TestTriageC23(t *testing.T) {
	conflictErrFn := func() error { return storage.ErrOutOfBounds }
	for _, tc := range []struct {
		name string
		rf   uint64
		apps []*fakeAppendable
	}{
		{"rf4_2conflict_2ok", 4, []*fakeAppendable{
			{appender: newFakeAppender(conflictErrFn, nil, nil)},
			{appender: newFakeAppender(conflictErrFn, nil, nil)},
			{appender: newFakeAppender(nil, nil, nil)},
			{appender: newFakeAppender(nil, nil, nil)},
		}},
		{"rf2_1conflict_1unavailable", 2, []*fakeAppendable{
			{appender: newFakeAppender(conflictErrFn, nil, nil)},
			{appender: newFakeAppender(nil, nil, nil), appenderErr: func() error { return errUnavailable }},
		}},
	} {
		handlers, _, closeFn, err := newTestHandlerHashring(tc.name, tc.apps, tc.rf, AlgorithmHashmod, false)
		if err != nil {
			t.Fatal(err)
		}
		wreq := &prompb.WriteRequest{Timeseries: makeSeriesWithValues(3)}
		for i, h := range handlers {
			rec, err := makeRequest(h, "test-tenant", wreq)
			if err != nil {
				t.Fatal(err)
			}
			fmt.Printf("TRIAGE C23 %s handler=%d status=%d body=%q\n", tc.name, i, rec.Code, rec.Body.String())
		}
		_ = closeFn()
	}
}

// C24: gate of size 1 is held by request A; request B's client gives up while queued.
func TestTriageC24(t *testing.T) {
	g := gate.New(prometheus.NewRegistry(), 1, gate.WriteRequests)
	lim, _ := NewLimiter(nil, nil, RouterIngestor, log.NewNopLogger(), time.Second)
	lim.writeGate = g
	h := &Handler{logger: log.NewNopLogger(), options: &Options{TenantHeader: tenancy.DefaultTenantHeader, DefaultTenantID: "t"}, Limiter: lim}

	// Request A is "in flight": it holds the only slot.
	if err := g.Start(context.Background()); err != nil {
		t.Fatal(err)
	}
	// Request B: context already cancelled -> Start fails while queued.
	ctx, cancel := context.WithCancel(context.Background())
	cancel()
	req := httptest.NewRequest(http.MethodPost, "/api/v1/receive", nil).WithContext(ctx)
	rec := httptest.NewRecorder()
	h.receiveHTTP(rec, req)
	fmt.Printf("TRIAGE C24 cancelled request status=%d\n", rec.Code)
	// If B's deferred Done() ran, A's slot is gone: a new Start succeeds immediately although A still runs.
	c2, cancel2 := context.WithTimeout(context.Background(), 100*time.Millisecond)
	defer cancel2()
	err := g.Start(c2)
	fmt.Printf("TRIAGE C24 third request admitted while A still in flight: %v (err=%v)\n", err == nil, err)
	// And when A and the third both finish, one Done too many -> panic.
	func() {
		defer func() { fmt.Printf("TRIAGE C24 recover=%v\n", recover()) }()
		g.Done()
		g.Done()
	}()
}

// C26: symbol reference outside the table.
func TestTriageC26(t *testing.T) {
	lim, _ := NewLimiter(nil, nil, RouterIngestor, log.NewNopLogger(), time.Second)
	h := &Handler{logger: log.NewNopLogger(), options: &Options{TenantHeader: tenancy.DefaultTenantHeader, DefaultTenantID: "t"}, Limiter: lim}
	wreq := writev2.Request{Symbols: []string{"", "a", "b"}, Timeseries: []writev2.TimeSeries{{LabelsRefs: []uint32{1, 7}, Samples: []writev2.Sample{{Value: 1, Timestamp: 1}}}}}
	buf, _ := proto.Marshal(&wreq)
	req := httptest.NewRequest(http.MethodPost, "/api/v1/receive", bytesReader(s2.EncodeSnappy(nil, buf)))
	req.Header.Set("X-Prometheus-Remote-Write-Version", "2.0.0")
	req.Header.Set("Content-Type", "application/x-protobuf;proto=io.prometheus.write.v2.Request")
	rec := httptest.NewRecorder()
	func() {
		defer func() { fmt.Printf("TRIAGE C26 recover=%v status=%d\n", recover(), rec.Code) }()
		h.receiveHTTP(rec, req)
	}()
}

// C19: zones {a:1 node, b:3 nodes}, RF=4.
func TestTriageC19(t *testing.T) {
	eps := []Endpoint{{Address: "n1", AZ: "a"}, {Address: "n2", AZ: "b"}, {Address: "n3", AZ: "b"}, {Address: "n4", AZ: "b"}}
	done := make(chan struct{})
	go func() {
		_, err := NewMultiHashring(AlgorithmKetama, 4, []HashringConfig{{Endpoints: eps}}, prometheus.NewRegistry())
		fmt.Printf("TRIAGE C19 returned err=%v\n", err)
		close(done)
	}()
	select {
	case <-done:
	case <-time.After(10 * time.Second):
		fmt.Printf("TRIAGE C19 NewMultiHashring still running after 10s (hang)\n")
	}
}
