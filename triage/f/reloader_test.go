package reloader

import (
	"context"
	"fmt"
	"os"
	"path/filepath"
	"runtime/debug"
	"testing"
	"time"

	"github.com/go-kit/log"
)

// C47: an empty file in a watched config dir.
func TestTriageC47(t *testing.T) {
	dir := t.TempDir()
	in := filepath.Join(dir, "in")
	out := filepath.Join(dir, "out")
	_ = os.MkdirAll(in, 0o755)
	_ = os.MkdirAll(out, 0o755)
	_ = os.WriteFile(filepath.Join(in, "empty.yaml"), nil, 0o644)
	r := New(log.NewNopLogger(), nil, &Options{CfgDirs: []CfgDirOption{{Dir: in, OutputDir: out}}, WatchInterval: time.Second, RetryInterval: time.Second})
	func() {
		defer func() { r := recover(); fmt.Printf("TRIAGE C47 recover=%v\n%s\n", r, debug.Stack()) }()
		err := r.apply(context.Background())
		fmt.Printf("TRIAGE C47 apply err=%v\n", err)
	}()
}
