package rules

import (
	"fmt"
	"testing"

	"github.com/prometheus/prometheus/model/labels"
)

// C45: two selector sets; the rule satisfies the first set only.
func TestTriageC45(t *testing.T) {
	l := labels.FromStrings("severity", "page", "team", "a")
	set1 := []*labels.Matcher{labels.MustNewMatcher(labels.MatchEqual, "team", "a")}
	set2 := []*labels.Matcher{labels.MustNewMatcher(labels.MatchEqual, "team", "b")}
	fmt.Printf("TRIAGE C45 matches({team=a}|{team=b}, team=a) = %v (Prometheus: true)\n", matches([][]*labels.Matcher{set1, set2}, l))
	fmt.Printf("TRIAGE C45 matches({team=a}) = %v\n", matches([][]*labels.Matcher{set1}, l))
}
