package store

import (
	"context"
	"fmt"
	"testing"
	"time"

	"github.com/prometheus/prometheus/model/labels"

	"github.com/thanos-io/thanos/pkg/component"
	"github.com/thanos-io/thanos/pkg/store/storepb"
	storetestutil "github.com/thanos-io/thanos/pkg/store/storepb/testutil"
)

// C17a (full path): one sharded Series request through the proxy, then look at the proxy's pool.
func TestTriageC17aProxy(t *testing.T) {
	for _, strat := range []RetrievalStrategy{EagerRetrieval, LazyRetrieval} {
		stores := []Client{
			&storetestutil.TestClient{
				Name:    "s1",
				MinTime: 1, MaxTime: 300,
				ExtLset: []labels.Labels{labels.FromStrings("ext", "1")},
				StoreClient: &mockedStoreAPI{RespSeries: []*storepb.SeriesResponse{
					storeSeriesResponse(t, labels.FromStrings("a", "a"), []sample{{0, 0}, {2, 1}}),
				}},
			},
		}
		q := NewProxyStore(nil, nil, func() []Client { return stores }, component.Query, labels.EmptyLabels(), 5*time.Second, strat)
		srv := newStoreSeriesServer(context.Background())
		err := q.Series(&storepb.SeriesRequest{
			MinTime: 1, MaxTime: 300,
			Matchers:  []storepb.LabelMatcher{{Name: "a", Value: "a", Type: storepb.LabelMatcher_EQ}},
			ShardInfo: &storepb.ShardInfo{TotalShards: 1, ShardIndex: 0, By: true, Labels: []string{"a"}},
		}, srv)
		x := q.buffers.Get().(*[]byte)
		y := q.buffers.Get().(*[]byte)
		fmt.Printf("TRIAGE C17a proxy strategy=%s err=%v series=%d: two requests would now share one buffer: %v\n", strat, err, len(srv.SeriesSet), x == y)
	}
}
