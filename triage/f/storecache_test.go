package storecache

import (
	"fmt"
	"testing"

	"github.com/oklog/ulid/v2"
	"github.com/prometheus/prometheus/model/labels"

	"github.com/thanos-io/thanos/pkg/store/storepb"
)

// C13: distinct items, same key.
func TestTriageC13(t *testing.T) {
	b := ulid.MustNew(1, nil).String()
	k1 := CacheKey{Block: b, Key: CacheKeyPostings(labels.Label{Name: "a:b", Value: "c"})}.String()
	k2 := CacheKey{Block: b, Key: CacheKeyPostings(labels.Label{Name: "a", Value: "b:c"})}.String()
	fmt.Printf("TRIAGE C13 postings key (a:b,c)==(a,b:c): %v\n", k1 == k2)
	m1 := storepb.LabelMatcher{Type: storepb.LabelMatcher_RE, Name: "a", Value: "b=~c"}
	m2 := storepb.LabelMatcher{Type: storepb.LabelMatcher_RE, Name: "a=~b", Value: "c"}
	c1, _ := cacheKey(&m1)
	c2, _ := cacheKey(&m2)
	fmt.Printf("TRIAGE C13 matchers-cache key %q == %q: %v\n", c1, c2, c1 == c2)
	e1 := LabelMatchersToString([]*labels.Matcher{labels.MustNewMatcher(labels.MatchEqual, "a", `b";c="d`)})
	e2 := LabelMatchersToString([]*labels.Matcher{labels.MustNewMatcher(labels.MatchEqual, "a", "b"), labels.MustNewMatcher(labels.MatchEqual, "c", "d")})
	fmt.Printf("TRIAGE C13 LabelMatchersToString quoted: %q vs %q equal=%v\n", e1, e2, e1 == e2)
}
