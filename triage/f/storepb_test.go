package storepb

import (
	"fmt"
	"sync"
	"testing"
)

// C17a (part 1): ShardMatcher.Close is not idempotent.
func TestTriageC17aMatcher(t *testing.T) {
	pool := &sync.Pool{New: func() any { b := make([]byte, 0, 16); return &b }}
	si := &ShardInfo{TotalShards: 2, ShardIndex: 0, By: true, Labels: []string{"a"}}
	m := si.Matcher(pool)
	m.Close()
	m.Close()
	x := pool.Get().(*[]byte)
	y := pool.Get().(*[]byte)
	fmt.Printf("TRIAGE C17a double Close -> two Gets return same buffer: %v\n", x == y)
}
