package writecapnp

import (
	"fmt"
	"testing"

	"capnproto.org/go/capnp/v3"

	"github.com/thanos-io/thanos/pkg/store/labelpb"
	"github.com/thanos-io/thanos/pkg/store/storepb/prompb"
)

// C25: native histogram with custom bucket boundaries.
func TestTriageC25(t *testing.T) {
	ts := []prompb.TimeSeries{{
		Labels: []labelpb.ZLabel{{Name: "a", Value: "b"}},
		Histograms: []prompb.Histogram{{
			Count: &prompb.Histogram_CountInt{CountInt: 3}, Sum: 6, Schema: -53,
			PositiveSpans: []prompb.BucketSpan{{Offset: 0, Length: 2}}, PositiveDeltas: []int64{1, 1},
			CustomValues: []float64{1, 5}, Timestamp: 10,
		}},
	}}
	b, err := Marshal("t", ts)
	if err != nil {
		t.Fatal(err)
	}
	msg, err := capnp.Unmarshal(b)
	if err != nil {
		t.Fatal(err)
	}
	wr, _ := ReadRootWriteRequest(msg)
	data, _ := wr.Data()
	sym, _ := wr.Symbols()
	req, err := NewRequest(data.At(0), sym, "t")
	if err != nil {
		t.Fatal(err)
	}
	var s Series
	for req.Next() {
		_ = req.At(&s)
		for _, h := range s.Histograms {
			fmt.Printf("TRIAGE C25 decoded schema=%d customValues=%v (sent [1 5])\n", h.Histogram.Schema, h.Histogram.CustomValues)
		}
	}
}
